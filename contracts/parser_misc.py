"""Sidecar contracts for small functions of parglare/parser.py and parglare/grammar.py:
C18 (_call_dynamic_filter), C04 (_check_parser), C07 (_lexical_disambiguation), C08 (Token, recognisers)."""
from vlib.pyvc.api import CLASSES, classes, contract

classes(
    "parglare.grammar",
    Symbol=dict(fields={"dynamic": "bool", "prefer": "bool", "name": "str", "prior": "int"}),
    Production=dict(fields={"dynamic": "bool", "prod_id": "int", "rhs": "list[any]"}),
    StringRecognizer=dict(fields={"value": "str", "value_cmp": "str", "ignore_case": "bool", "name": "str"}),
)
classes(
    "parglare.tables",
    LRStateT=dict(fields={"symbol": "ref[Symbol]", "state_id": "int"}),
    Conflict=dict(fields={}, pure_methods={"dynamic@prop": "bool"}),
    Table=dict(fields={"sr_conflicts": "list[ref[Conflict]]", "rr_conflicts": "list[ref[Conflict]]"}),
)
classes(
    "parglare.parser",
    DynCtx=dict(fields={"token": "opt[ref[Token]]", "token_ahead": "opt[ref[Token]]", "production": "any",
                        "state": "ref[LRStateT]"}),
    StackNode=dict(fields={"results": "any"}),
    # (a typed view of Parser; `bases` lets calls of self.<method> find the contracts registered for Parser)
    ParserD=dict(bases=("Parser",), fields={"dynamic_filter": "func", "debug": "bool", "table": "ref[Table]", "lexical_disambiguation": "bool",
                         "parse_stack": "list[ref[StackNode]]"}),
    Act=dict(fields={"action": "int", "state": "opt[ref[LRStateT]]", "prod": "opt[ref[Production]]"}),
    Tok=dict(fields={"symbol": "ref[Symbol]", "value": "any", "length": "int", "position": "opt[int]",
                     "additional_data": "any"}, truthy="always"),
)
CLASSES.get("ParserD").pure_methods["print_debug"] = __import__("vlib.pyvc.types", fromlist=["parse"]).parse("none")

G = {"SHIFT": ("int", 0), "REDUCE": ("int", 1), "ACCEPT": ("int", 2)}

# ---- C18: the filter is consulted for marked actions only; its verdict is returned ---------------------------
contract("parglare.parser.Parser._call_dynamic_filter",
         params={"self": "ref[ParserD]", "context": "ref[DynCtx]", "from_state": "ref[LRStateT]",
                 "to_state": "opt[ref[LRStateT]]", "action": "int", "production": "opt[ref[Production]]",
                 "subresults": "any"},
         defaults={"production": None, "subresults": None}, returns="bool",
         requires=["not self.debug",            # (debug printing branch not modelled)
                   "action == 0 or action == 1",
                   "implies(action == 0, to_state is not None)", "implies(action == 1, production is not None)"],
         ensures=[
             # unmarked decision: taken without consulting the filter
             "implies(action == 0 and not to_state.symbol.dynamic, result == True)",
             "implies(action == 1 and not production.dynamic, result == True)",
             # marked decision: the filter's verdict, for exactly these arguments
             "implies((action == 0 and to_state.symbol.dynamic) or (action == 1 and production.dynamic), "
             "result == bool(self.dynamic_filter(context, from_state, to_state, action, production, subresults)))",
             # the context's token is filled from the look-ahead when it was empty, nothing else changes
             "context.token == (old(context.token) if old(context.token) is not None else old(context.token_ahead))",
         ],
         modifies=["context.token"], globals=G,
         # (the filter is assumed to return a bool, as documented)
         opaque={"ParserD.dynamic_filter": {"returns": "bool", "pure": True}},
         properties=("C18",),
         canaries=[("verdict-inverted", {"ensures": [
             "implies(action == 1 and production.dynamic, "
             "result == (not bool(self.dynamic_filter(context, from_state, to_state, action, production, subresults))))"]})])

# ---- C18 (LR side): the candidate actions of a state are filtered one by one --------------------------------------
KEPT = "exists(0, len(result), lambda j: result[j] == actions[k])"
contract("parglare.parser.Parser._dynamic_disambiguation",
         params={"self": "ref[ParserD]", "context": "ref[DynCtx]", "actions": "list[ref[Act]]"},
         returns="list[ref[Act]]",
         requires=["not self.debug",
                   "forall(0, len(actions), lambda k: allocated(actions[k]))",
                   "forall(0, len(actions), lambda k: implies(actions[k].action == 0, actions[k].state is not None))",
                   "forall(0, len(actions), lambda k: implies(actions[k].action == 1, actions[k].prod is not None and "
                   "len(actions[k].prod.rhs) <= len(self.parse_stack)))",
                   # (the actions of a table cell are distinct objects)
                   "forall(0, len(actions), lambda k: forall(0, k, lambda m: actions[m] != actions[k]))"],
         ensures=[
             "fresh(result)",
             # only offered actions survive
             "forall(0, len(result), lambda j: exists(0, len(actions), lambda k: result[j] == actions[k]))",
             # actions that are neither SHIFT nor REDUCE (ACCEPT) are kept
             "forall(0, len(actions), lambda k: implies(actions[k].action != 0 and actions[k].action != 1, " + KEPT + "))",
             # unmarked shifts and reductions are kept without consulting the filter
             "forall(0, len(actions), lambda k: implies(actions[k].action == 0 and not actions[k].state.symbol.dynamic, " + KEPT + "))",
             "forall(0, len(actions), lambda k: implies(actions[k].action == 1 and not actions[k].prod.dynamic, " + KEPT + "))",
             # a marked shift the filter accepts is kept
             "forall(0, len(actions), lambda k: implies(actions[k].action == 0 and actions[k].state.symbol.dynamic and "
             "bool(self.dynamic_filter(context, context.state, actions[k].state, 0, None, None)), " + KEPT + "))",
             # a marked shift the filter rejects is NOT taken
             "forall(0, len(actions), lambda k: implies(actions[k].action == 0 and actions[k].state.symbol.dynamic and "
             "not bool(self.dynamic_filter(context, context.state, actions[k].state, 0, None, None)), "
             "not exists(0, len(result), lambda j: result[j] == actions[k])))",
         ],
         modifies=["context.token", "context.production"], globals=G,
         opaque={"ParserD.dynamic_filter": {"returns": "bool", "pure": True}},
         callees={"self._call_dynamic_filter": "parglare.parser.Parser._call_dynamic_filter"},
         locals={"dyn_actions": "list[ref[Act]]", "results": "list[any]"},
         loops={0: {"inv": [
             "fresh(dyn_actions)",
             "forall(0, len(dyn_actions), lambda j: exists(0, __i0, lambda k: dyn_actions[j] == actions[k]))",
             "forall(0, __i0, lambda k: implies(actions[k].action != 0 and actions[k].action != 1, "
             "exists(0, len(dyn_actions), lambda j: dyn_actions[j] == actions[k])))",
             "forall(0, __i0, lambda k: implies(actions[k].action == 0 and not actions[k].state.symbol.dynamic, "
             "exists(0, len(dyn_actions), lambda j: dyn_actions[j] == actions[k])))",
             "forall(0, __i0, lambda k: implies(actions[k].action == 1 and not actions[k].prod.dynamic, "
             "exists(0, len(dyn_actions), lambda j: dyn_actions[j] == actions[k])))",
             "forall(0, __i0, lambda k: implies(actions[k].action == 0 and actions[k].state.symbol.dynamic and "
             "bool(self.dynamic_filter(context, context.state, actions[k].state, 0, None, None)), "
             "exists(0, len(dyn_actions), lambda j: dyn_actions[j] == actions[k])))",
             "forall(0, __i0, lambda k: implies(actions[k].action == 0 and actions[k].state.symbol.dynamic and "
             "not bool(self.dynamic_filter(context, context.state, actions[k].state, 0, None, None)), "
             "not exists(0, len(dyn_actions), lambda j: dyn_actions[j] == actions[k])))",
         ]}},
         properties=("C18",),
         canaries=[("rejected-shift-kept", {"ensures": [
             "forall(0, len(actions), lambda k: implies(actions[k].action == 0 and actions[k].state.symbol.dynamic, " + KEPT + "))"]})])

# ---- C04: construction is gated by unhandled conflicts ---------------------------------------------------------
contract("parglare.parser.Parser._check_parser",
         params={"self": "ref[ParserD]"},
         raises={
             "SRConflicts": "len(self.table.sr_conflicts) > 0 and (not self.dynamic_filter or "
                            "exists(0, len(self.table.sr_conflicts), lambda k: not self.table.sr_conflicts[k].dynamic))",
             "RRConflicts": "not (len(self.table.sr_conflicts) > 0 and (not self.dynamic_filter or "
                            "exists(0, len(self.table.sr_conflicts), lambda k: not self.table.sr_conflicts[k].dynamic))) and "
                            "len(self.table.rr_conflicts) > 0 and (not self.dynamic_filter or "
                            "exists(0, len(self.table.rr_conflicts), lambda k: not self.table.rr_conflicts[k].dynamic))",
         },
         ensures=[], modifies=[],
         locals={"unhandled_conflicts": "list[ref[Conflict]]"},
         loops={0: {"inv": ["fresh(unhandled_conflicts)",
                            "(len(unhandled_conflicts) > 0) == exists(0, __i0, lambda k: not self.table.sr_conflicts[k].dynamic)"]},
                1: {"inv": ["fresh(unhandled_conflicts)",
                            "(len(unhandled_conflicts) > 0) == exists(0, __i1, lambda k: not self.table.rr_conflicts[k].dynamic)"]}},
         properties=("C04", "C18"))

# ---- C07: longest match, then prefer -----------------------------------------------------------------------------
contract("parglare.parser.Parser._lexical_disambiguation",
         params={"self": "ref[ParserD]", "tokens": "list[ref[Tok]]"}, returns="list[ref[Tok]]",
         requires=["not self.debug",
                   "forall(0, len(tokens), lambda i: live(tokens[i]))"],
         ensures=[
             # (zero or one candidate: returned as they are -- the same list or a copy, not specified)
             "implies(len(tokens) <= 1, len(result) == len(tokens) and forall(0, len(tokens), lambda i: result[i] == tokens[i]))",
             "implies(len(tokens) > 1, len(result) >= 1)",
             # every survivor is one of the candidates and has maximal match length
             "implies(len(tokens) > 1, forall(0, len(result), lambda j: "
             "exists(0, len(tokens), lambda k: result[j] == tokens[k])))",
             "implies(len(tokens) > 1, forall(0, len(result), lambda j: "
             "forall(0, len(tokens), lambda k: len(tokens[k].value) <= len(result[j].value))))",
             # a preferred candidate of maximal length excludes the non-preferred ones
             "implies(len(tokens) > 1 and exists(0, len(tokens), lambda k: tokens[k].symbol.prefer and "
             "forall(0, len(tokens), lambda m: len(tokens[m].value) <= len(tokens[k].value))), "
             "forall(0, len(result), lambda j: result[j].symbol.prefer) or len(result) == 1)",
         ],
         modifies=[], properties=("C07",))

# ---- C08: tokens and the string recogniser ---------------------------------------------------------------------------
contract("parglare.parser.Token.__init__",
         params={"self": "ref[Tok]", "symbol": "ref[Symbol]", "value": "any", "position": "opt[int]",
                 "additional_data": "any", "length": "opt[int]"},
         defaults={"additional_data": None, "length": None},
         ensures=["self.length == (length if length is not None else len(value))",
                  "self.position == position and self.symbol == symbol and self.value == value"],
         modifies=["self.*"], properties=("C08",))

contract("parglare.parser.Token.__len__",
         params={"self": "ref[Tok]"}, returns="int", ensures=["result == self.length"], modifies=[],
         properties=("C08",))

contract("parglare.parser.Token.end_position",
         params={"self": "ref[Tok]"}, returns="int", requires=["self.position is not None"],
         ensures=["result == self.position + self.length"], modifies=[], properties=("C08",))

contract("parglare.grammar.StringRecognizer.__call__",
         params={"self": "ref[StringRecognizer]", "in_str": "str", "pos": "int"}, returns="opt[str]",
         # (class invariant established by __init__: value_cmp is the text, lower-cased under ignore_case)
         requires=["0 <= pos", "implies(not self.ignore_case, self.value_cmp == self.value)",
                   "implies(self.ignore_case, self.value_cmp == self.value.lower())"],
         ensures=[
             # case-sensitive: a match is the text at pos, literally, and nothing else matches
             "implies(not self.ignore_case, (result is not None) == (in_str[pos:pos + len(self.value)] == self.value))",
             # ignore_case: the same up to str.lower()
             "implies(self.ignore_case, (result is not None) == "
             "(in_str[pos:pos + len(self.value)].lower() == self.value.lower()))",
             # C08: what is returned is what stands in the input (in both modes), so a leaf's value is input[start:end]
             "implies(result is not None, result == in_str[pos:pos + len(self.value)])",
         ],
         modifies=[], properties=("C08", "C19"))

MISC = ["parglare.parser.Parser._call_dynamic_filter", "parglare.parser.Parser._check_parser",
        "parglare.parser.Parser._lexical_disambiguation", "parglare.parser.Token.__init__",
        "parglare.parser.Token.__len__", "parglare.parser.Token.end_position",
        "parglare.grammar.StringRecognizer.__call__"]
