"""Sidecar contract for closure._new_item_follow (C05): the look-ahead set of the items added by closure for
[A -> alpha . B beta, L] is FIRST(beta L): the non-EMPTY members of FIRST of every symbol of beta that is reached
through nullable symbols only, plus L when all of beta is nullable.  Nothing but the fresh result is written."""
from vlib.pyvc.api import classes, contract

classes(
    "parglare.closure",
    SymC=dict(fields={}),
    ProdC=dict(fields={"rhs": "list[ref[SymC]]"}),
    ItemC=dict(fields={"production": "ref[ProdC]", "position": "int", "follow": "set[ref[SymC]]"}),
)

M = {
    "R": ((), "item.production.rhs"),
    "B": ((), "(item.position + 1)"),                       # beta starts here
    "FS": (("i",), "first_sets[item.production.rhs[i]]"),
    "nullable_upto": (("i",), "forall(B(), i, lambda j: EMPTY in FS(j))"),
}

contract("parglare.closure._new_item_follow",
         params={"item": "ref[ItemC]", "first_sets": "dict[ref[SymC],set[ref[SymC]]]"},
         returns="set[ref[SymC]]",
         requires=[
             "allocated(item.production) and allocated(item.production.rhs) and allocated(item.follow)",
             "0 <= item.position and item.position < len(item.production.rhs)",
             "forall(0, len(R()), lambda i: allocated(R()[i]) and haskey(first_sets, R()[i]) and allocated(FS(i)))",
             "not (EMPTY in item.follow)",
         ],
         ensures=[
             "fresh(result)",
             "not (EMPTY in result)",
             # soundness and completeness of FIRST(beta L) \\ {EMPTY}
             "forall_ref(lambda t: (t in result) == ("
             "exists(B(), len(R()), lambda i: nullable_upto(i) and (t in FS(i)) and t != EMPTY) or "
             "(nullable_upto(len(R())) and (t in item.follow))))",
         ],
         modifies=[], globals={"EMPTY": ("ref[SymC]", None)}, macros=M,
         locals={"new_follow": "set[ref[SymC]]", "s": "ref[SymC]"},
         loops={0: {"inv": [
             "fresh(new_follow)",
             "not (EMPTY in new_follow)",
             "nullable_upto(B() + __i0)",
             "forall_ref(lambda t: (t in new_follow) == exists(B(), B() + __i0, lambda i: (t in FS(i)) and t != EMPTY))",
         ]}},
         properties=("C05",),
         canaries=[("follow-always-inherited", {"ensures": [
             "forall_ref(lambda t: implies(t in item.follow, t in result))"]})])

CLOSURE_C05 = ["parglare.closure._new_item_follow"]
