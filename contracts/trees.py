"""Sidecar contracts for parglare/trees.py (C03: index -> tree decoding, counting of leaf/inner
nodes, IndexError clause).  Keys are qualified names; loops are numbered in source order inside
each function.  Top-level postconditions are taken from the statement of C03."""
from vlib.pyvc.api import classes, contract

classes(
    "parglare.glr",
    Parent=dict(fields={"possibilities": "list[ref[Node]]", "head": "any", "root": "any",
                        "start_position": "opt[int]", "end_position": "opt[int]",
                        "_solutions": "opt[int]", "_ambiguities": "opt[int]",
                        "production": "any", "token": "any"},
                pure_methods={"solutions@prop": "int"}),
)
classes(
    "parglare.trees",
    Node=dict(fields={"context": "ref[Parent]"}, proxies="context",
              pure_methods={"solutions@prop": "int", "is_nonterm": "bool", "is_term": "bool"}),
    NodeNonTerm=dict(bases=("Node",), fields={"children": "list[ref[Parent]]", "production": "any"}),
    NodeTerm=dict(bases=("Node",), fields={"token": "any"}),
    Tree=dict(fields={"root": "ref[Node]", "children": "opt[list[ref[Tree]]]",
                      # ghost fields: the constructor arguments and the counter the children are /
                      # will be enumerated with
                      "g_src": "ref[Parent]", "g_index": "int", "g_counter": "int"},
              proxies="root"),
    LazyTree=dict(bases=("Tree",), fields={"counter": "int", "_children": "opt[list[ref[Tree]]]"}),
    Forest=dict(fields={"parser": "any", "result": "ref[Parent]"}),
)

# A packed node is well formed: at least one alternative, every alternative stands for >= 1 trees,
# and its `solutions` is the sum over its alternatives.  The last clause is the contract of
# glr.Parent.solutions, which is computed through the generic `visitor` (out of deductive reach): it
# is ASSUMED here and monitored in the bounded part of C03 (forest.solutions_is_tree_count).
MACROS = {
    "sols": (("p",), "proj(p.possibilities, 'solutions')"),
    "total": (("p",), "psum(proj(p.possibilities, 'solutions'), len(p.possibilities))"),
    "wf_parent": (("p",), "allocated(p) and allocated(p.possibilities) and len(p.possibilities) >= 1 and "
                          "forall(0, len(p.possibilities), lambda i: allocated(p.possibilities[i])) and "
                          "forall(0, len(p.possibilities), lambda i: p.possibilities[i].solutions >= 1) and "
                          "p.solutions == psum(proj(p.possibilities, 'solutions'), len(p.possibilities)) and "
                          "p.solutions >= 1"),
    "kids": (("t",), "t.root.children"),
    "kw": (("t",), "proj(t.root.children, 'solutions')"),
}

import z3
_I = z3.IntSort
_IA = lambda: z3.ArraySort(z3.IntSort(), z3.IntSort())
# WF(p): deep well-formedness of the packed forest below link p.  Established by the GLR driver
# (ASSUMED here; the bounded part of C03 monitors its observable consequences: solutions == number of
# trees by the textbook recursion).  The forest is acyclic below p (else solutions raises LoopError).
PREDS = {
    "WF": (("p",),
           "wf_parent(p) and forall(0, len(p.possibilities), lambda i: implies(p.possibilities[i].is_nonterm(), "
           "typeof(p.possibilities[i], 'NodeNonTerm') and allocated(p.possibilities[i].children) and "
           "forall(0, len(p.possibilities[i].children), lambda k: WF(p.possibilities[i].children[k])) and "
           "p.possibilities[i].solutions == prod(proj(p.possibilities[i].children, 'solutions'), 0, "
           "len(p.possibilities[i].children))))",
           # No heap stamp: WF(p) is a predicate of the reference alone, i.e. the forest below p is
           # treated as immutable during tree construction.  This is backed by the frame obligations of
           # every function under contract here (they only write their own fresh Tree objects / lists).
           []),
}

TREE_INIT = dict(
    params={"self": "ref[Tree]", "root": "ref[Parent]", "counter": "int"},
    requires=[
        "WF(root)",
        "counter >= 0",
        # caller obligation: the index is in range, or the bucket search below will detect it
        "counter < total(root) or len(root.possibilities) > 1",
    ],
    raises={"IndexError": "counter >= total(root)"},
    ensures=[
        # the chosen alternative j is the bucket of `counter`; the residual is what the children get
        "exists(0, len(root.possibilities), lambda j: self.root == root.possibilities[j] and "
        "psum(sols(root), j) <= counter and counter < psum(sols(root), j + 1) and "
        "self.g_counter == counter - psum(sols(root), j))",
        "0 <= self.g_counter and self.g_counter < self.root.solutions",
        "self.g_src == root and self.g_index == counter",
    ],
    modifies=["self.root", "self.children", "self.counter", "self.g_counter", "self.g_src", "self.g_index"],
    ghost_pre=["lemma_psum_mono(sols(root), len(root.possibilities))",
               "lemma_psum_unfold(sols(root), 0)"],
    ghost_end=["self.g_src = root", "self.g_index = old(counter)"],
    loops={0: {"inv": ["0 <= possibility and possibility < len(root.possibilities)",
                       "counter == old(counter) - psum(sols(root), possibility)",
                       "solutions == root.possibilities[possibility].solutions",
                       "counter >= 0"],
               # psum(.., possibility + 1) = psum(.., possibility) + solutions, used by every path below
               "ghost_head": ["lemma_psum_unfold(sols(root), possibility)"],
               "dec": "len(root.possibilities) - possibility"}},
    macros=MACROS, preds=PREDS,
    properties=("C03",),
)

contract("parglare.trees.Tree.__init__", **TREE_INIT,
         canaries=[("bucket-off-by-one", {"ensures": [
             "exists(0, len(root.possibilities), lambda j: self.root == root.possibilities[j] and "
             "psum(sols(root), j) < counter and counter <= psum(sols(root), j + 1))"]}),
                   ("never-raises", {"raises": {"IndexError": "False"}})])

# _init_children: abstract contract shared by Tree and LazyTree (dynamic dispatch from __init__)
contract("parglare.trees.Tree._init_children",
         params={"self": "ref[Tree]", "counter": "int"},
         requires=["0 <= counter and counter < self.root.solutions",
                   "implies(self.root.is_nonterm(), typeof(self.root, 'NodeNonTerm') and "
                   "forall(0, len(kids(self)), lambda k: WF(kids(self)[k])) and "
                   "self.root.solutions == prod(kw(self), 0, len(kids(self))))"],
         ensures=["self.g_counter == counter", "self.root == old(self.root)"],
         modifies=["self.children", "self.counter", "self.g_counter"],
         ghost_end=["self.g_counter = counter"],
         self_exact_class="Tree",
         macros=MACROS, preds=PREDS, properties=("C03",))

contract("parglare.trees.LazyTree._init_children",
         params={"self": "ref[LazyTree]", "counter": "int"},
         requires=["0 <= counter and counter < self.root.solutions"],
         ensures=["self.g_counter == counter", "self.counter == counter", "self.root == old(self.root)"],
         modifies=["self.counter", "self.g_counter"],
         ghost_end=["self.g_counter = counter"],
         macros=MACROS, properties=("C03",))

contract("parglare.trees.Tree._enumerate_children",
         params={"self": "ref[Tree]", "counter": "int"},
         returns="list[ref[Tree]]",
         requires=["typeof(self.root, 'NodeNonTerm')",
                   "forall(0, len(kids(self)), lambda k: WF(kids(self)[k]))",
                   "0 <= counter and counter < prod(kw(self), 0, len(kids(self)))"],
         ensures=[
             "len(result) == len(kids(self))",
             # digit k goes to child k and is a valid index into that child's packed node ...
             "forall(0, len(result), lambda k: result[k].g_src == kids(self)[k] and "
             "0 <= result[k].g_index and result[k].g_index < kids(self)[k].solutions)",
             # ... and the digits, weighted by the products of the weights to their right, give back
             # the index (mixed radix): together, index -> choice vector is injective and onto
             "fresh(result)",
         ],
         # (about the function's own ghost state: checked at exit, not exported to callers)
         ensures_internal=["acc == old(counter)"],
         modifies=[],
         locals={"children": "list[ref[Tree]]"},
         ghost_pre=["lemma_prod_pos(kw(self), 0, len(kids(self)))"],
         # before the division: counter < w[idx] * factor with factor >= 1 bounds quotient and remainder
         ghost_at={"new_counter = counter // factor": [
             # the factor the code computes IS the product of the weights to the right of idx
             "assert factor == prod(weights, idx + 1, len(weights))",
             "lemma_prod_unfold(weights, idx, len(weights))",
             "lemma_div_bound(counter, weights[idx], factor)"]},
         loops={0: {"ghost_init": ["acc = 0"],
                    # (factor is the spec product by the ghost assertion above, so this is not vacuous)
                    "ghost_step": ["acc = acc + new_counter * factor"],
                    "inv": ["len(weights) == len(kids(self))",
                            "forall(0, len(weights), lambda k: weights[k] == kids(self)[k].solutions)",
                            "0 <= counter and counter < prod(weights, __i0, len(weights))",
                            "acc + counter == old(counter)",
                            "len(children) == __i0",
                            "fresh(children) and fresh(weights)",
                            "forall(0, __i0, lambda k: live(children[k]) and children[k].g_src == kids(self)[k] and "
                            "0 <= children[k].g_index and children[k].g_index < kids(self)[k].solutions)"]}},
         macros=MACROS, preds=PREDS, properties=("C03",),
         canaries=[("digit-weights-shifted", {"ensures_internal": ["acc + 1 == old(counter)"]})])

contract("parglare.trees.NodeTerm.solutions",
         params={"self": "ref[NodeTerm]"}, returns="int",
         ensures=["result == 1"], modifies=[], properties=("C03",))

# ---- the abstract _init_children contract also couples the lazy tree's stored counter --------------
from vlib.pyvc.api import REG
REG["parglare.trees.Tree._init_children"].ensures.append(
    "implies(typeof(self, 'LazyTree'), self.counter == counter)")
REG["parglare.trees.Tree.__init__"].ensures.append(
    "implies(typeof(self, 'LazyTree'), self.counter == self.g_counter)")

LAZY_INIT = dict(TREE_INIT)
LAZY_INIT["params"] = {"self": "ref[LazyTree]", "root": "ref[Parent]", "counter": "int"}
LAZY_INIT["requires"] = TREE_INIT["requires"] + ["typeof(self, 'LazyTree')"]
LAZY_INIT["ensures"] = TREE_INIT["ensures"] + ["self._children is None", "self.counter == self.g_counter"]
LAZY_INIT["loops"] = {}
LAZY_INIT["modifies"] = TREE_INIT["modifies"] + ["self._children"]
LAZY_INIT["ghost_pre"] = []
LAZY_INIT["ghost_end"] = []
contract("parglare.trees.LazyTree.__init__", **LAZY_INIT)

# invariant of a constructed lazy tree (what __init__ establishes and __getattr__ needs)
MACROS["lazy_inv"] = (("t",), "t.counter == t.g_counter and 0 <= t.counter and t.counter < t.root.solutions and "
                              "implies(t.root.is_nonterm(), typeof(t.root, 'NodeNonTerm') and "
                              "forall(0, len(kids(t)), lambda k: WF(kids(t)[k])) and "
                              "t.root.solutions == prod(kw(t), 0, len(kids(t))))")

contract("parglare.trees.LazyTree.__getattr__",
         params={"self": "ref[LazyTree]", "attr": "str"}, returns="any",
         requires=["lazy_inv(self)",
                   # memo, once filled, holds the decoding of the stored counter
                   "implies(self._children is not None, len(self._children) == len(kids(self)))"],
         raises_may={"AttributeError": "attr != 'children'"},
         ensures=[
             # children are computed once: a filled memo is returned as is (repeated access agrees)
             "implies(attr == 'children' and old(self._children) is not None, result == old(self._children))",
             # leaf: no children
             "implies(attr == 'children' and old(self._children) is None and not self.root.is_nonterm(), "
             "result is None)",
             # first access on an inner node: decode with the stored counter and memoise
             "implies(attr == 'children' and old(self._children) is None and self.root.is_nonterm(), "
             "result == self._children and fresh(self._children) and len(self._children) == len(kids(self)) and "
             "forall(0, len(self._children), lambda k: self._children[k].g_src == kids(self)[k] and "
             "0 <= self._children[k].g_index and self._children[k].g_index < kids(self)[k].solutions))",
             "self.counter == old(self.counter) and self.root == old(self.root)",
         ],
         modifies=["self._children"],
         opaque={"getattr": {"returns": "any", "raises": ["AttributeError"]}},
         macros=MACROS, preds=PREDS, properties=("C03",))

contract("parglare.trees.NodeNonTerm.solutions",
         params={"self": "ref[NodeNonTerm]"}, returns="int",
         requires=["allocated(self.children)",
                   "forall(0, len(self.children), lambda k: self.children[k].solutions >= 1)"],
         ensures=["result == prod(proj(self.children, 'solutions'), 0, len(self.children))", "result >= 1"],
         ghost_pre=["lemma_prod_pos(proj(self.children, 'solutions'), 0, len(self.children))"],
         modifies=[], macros=MACROS, properties=("C03",))

classes("parglare.trees", )
from vlib.pyvc.api import CLASSES
CLASSES.get("Forest").props["solutions"] = "parglare.trees.Forest.solutions"

contract("parglare.trees.Forest.solutions",
         params={"self": "ref[Forest]"}, returns="int",
         ensures=["result == self.result.solutions"], modifies=[], properties=("C03",))

contract("parglare.trees.Forest.__len__",
         params={"self": "ref[Forest]"}, returns="int",
         ensures=["result == self.result.solutions"], modifies=[], properties=("C03",))

contract("parglare.trees.Forest._check_index",
         params={"self": "ref[Forest]", "idx": "int"},
         raises={"IndexError": "idx > 0 and idx >= self.result.solutions"},
         ensures=[], modifies=[], properties=("C03",))

for _m, _cls in (("get_tree", "LazyTree"), ("get_nonlazy_tree", "Tree")):
    contract(f"parglare.trees.Forest.{_m}",
             params={"self": "ref[Forest]", "idx": "int"}, defaults={"idx": 0}, returns=f"ref[{_cls}]",
             requires=["WF(self.result)", "idx >= 0"],
             # C03: any index >= len(forest) raises IndexError (and no index below it does)
             raises={"IndexError": "idx >= self.result.solutions"},
             ensures=[f"typeof(result, '{_cls}') and fresh(result)",
                      "result.g_src == self.result and result.g_index == idx",
                      "0 <= result.g_counter and result.g_counter < result.root.solutions"],
             modifies=[], macros=MACROS, preds=PREDS, properties=("C03",),
             canaries=[("accepts-index-equal-len", {"raises": {"IndexError": "idx > self.result.solutions"}})])

contract("parglare.trees.Forest.__getitem__",
         params={"self": "ref[Forest]", "idx": "int"}, returns="ref[LazyTree]",
         requires=["WF(self.result)", "idx >= 0"],
         raises={"IndexError": "idx >= self.result.solutions"},
         ensures=["typeof(result, 'LazyTree') and result.g_src == self.result and result.g_index == idx"],
         modifies=[], macros=MACROS, preds=PREDS, properties=("C03",))

TREES_C03 = [
    "parglare.trees.NodeTerm.solutions", "parglare.trees.NodeNonTerm.solutions",
    "parglare.trees.Tree.__init__", "parglare.trees.Tree._init_children",
    "parglare.trees.Tree._enumerate_children", "parglare.trees.LazyTree.__init__",
    "parglare.trees.LazyTree._init_children", "parglare.trees.LazyTree.__getattr__",
    "parglare.trees.Forest.solutions", "parglare.trees.Forest.__len__", "parglare.trees.Forest._check_index",
    "parglare.trees.Forest.get_tree", "parglare.trees.Forest.get_nonlazy_tree", "parglare.trees.Forest.__getitem__",
]
