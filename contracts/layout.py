"""Sidecar contract for Parser._skipws (C08 / C14): with the `ws` parameter, layout skipping moves the head to the
first character that is not a ws character (or the end), never backwards, and records exactly the skipped text;
with a LAYOUT sub-parser it moves to where that parser stopped and records that slice."""
from vlib.pyvc.api import classes, contract

classes(
    "parglare.parser",
    LayoutP=dict(fields={}),
    ParserW=dict(fields={"layout_parser": "opt[ref[LayoutP]]", "ws": "opt[str]", "debug": "bool"}),
    HeadW=dict(fields={"position": "int", "layout_content_ahead": "str"}),
)

# the LAYOUT sub-parser: an LR parse with consume_input=False, return_position=True; TRUSTED here (it is the LR
# driver itself, subject of C04/C14's bounded checks): returns (result, position) and leaves the caller's head alone
contract("parglare.parser.LayoutP.parse",
         params={"self": "ref[LayoutP]", "input_str": "str", "position": "int"}, returns="tuple[any,int]",
         ensures=[], modifies=[], trusted=True,
         note="the layout sub-parser (Parser.parse of the LAYOUT grammar); assumed not to touch the outer head")

contract("parglare.parser.Parser._skipws",
         params={"self": "ref[ParserW]", "head": "ref[HeadW]", "input_str": "str"},
         requires=["not self.debug", "0 <= head.position"],
         ensures=[
             # never backwards
             "old(head.position) <= head.position",
             # what is recorded is exactly what was skipped
             "head.layout_content_ahead == input_str[old(head.position):head.position]",
             # ws parameter: only ws characters are skipped, and skipping is maximal
             "implies(self.layout_parser is None and self.ws is not None and len(self.ws) > 0, "
             "forall(old(head.position), head.position, lambda k: input_str[k] in self.ws))",
             "implies(self.layout_parser is None and self.ws is not None and len(self.ws) > 0 and "
             "head.position < len(input_str), not (input_str[head.position] in self.ws))",
             # no layout configured: nothing moves
             "implies(self.layout_parser is None and (self.ws is None or len(self.ws) == 0), "
             "head.position == old(head.position))",
         ],
         modifies=["head.position", "head.layout_content_ahead"],
         locals={"layout_content_ahead": "str"},
         loops={0: {"inv": ["old(head.position) <= head.position", "old_pos == old(head.position)",
                            "head.position <= in_len or head.position == old(head.position)",
                            "forall(old(head.position), head.position, lambda k: input_str[k] in self.ws)"],
                    "dec": "in_len - head.position"}},
         properties=("C08", "C14"),
         canaries=[("skips-non-ws", {"ensures": ["implies(self.layout_parser is None and self.ws is not None and "
                                                 "len(self.ws) > 0 and head.position < len(input_str), "
                                                 "input_str[head.position] in self.ws)"]})])

LAYOUT_C08 = ["parglare.parser.Parser._skipws"]
