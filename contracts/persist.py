"""Sidecar contracts for loading a serialised table (parglare/tables/persist.py), the decoding half of C12: the actions of
one table cell are rebuilt from their records one by one -- action code as written, target state looked up by the
recorded id or None when no id was recorded, production likewise.  The decoding loop is a P-block of
table_from_serializable (entry condition assumed: the ids in the records are keys of states_dict / indices of
grammar.productions, which the check of the whole round trip decides)."""
from vlib.pyvc.api import classes, contract

classes(
    "parglare.tables",
    StateP=dict(fields={"state_id": "int"}),
    ProdP=dict(fields={"prod_id": "int"}),
    GrammarP=dict(fields={"productions": "list[ref[ProdP]]"}),
    Action=dict(fields={"action": "int", "state": "opt[ref[StateP]]", "prod": "opt[ref[ProdP]]"}),
)

contract("parglare.tables.Action.__init__",
         params={"self": "ref[Action]", "action": "int", "state": "opt[ref[StateP]]", "prod": "opt[ref[ProdP]]"},
         defaults={"state": None, "prod": None},
         ensures=["self.action == action and self.state == state and self.prod == prod"],
         modifies=["self.*"], properties=("C12",))

REC = "json_actions[i]"
contract("parglare.tables.persist.table_from_serializable",
         block={"anchor": "for json_action in json_actions"},
         params={"json_actions": "list[dict[key,int]]", "states_dict": "dict[int,ref[StateP]]", "grammar": "ref[GrammarP]",
                 "term_acts": "list[ref[Action]]",
                 # (locals of the unchanged loop body; declared as block inputs so that a version of the code that
                 # initialises them BEFORE the loop is still within reach)
                 "act_state": "opt[ref[StateP]]", "act_prod": "opt[ref[ProdP]]"},
         requires=[
             "allocated(term_acts) and len(term_acts) == 0 and allocated(grammar.productions)",
             "forall(0, len(json_actions), lambda i: allocated(json_actions[i]) and haskey(json_actions[i], 'action'))",
             "forall(0, len(json_actions), lambda i: implies(haskey(json_actions[i], 'state_id'), "
             "haskey(states_dict, json_actions[i]['state_id']) and allocated(states_dict[json_actions[i]['state_id']])))",
             "forall(0, len(json_actions), lambda i: implies(haskey(json_actions[i], 'prod_id'), "
             "0 <= json_actions[i]['prod_id'] and json_actions[i]['prod_id'] < len(grammar.productions) and "
             "allocated(grammar.productions[json_actions[i]['prod_id']])))",
         ],
         ensures=[
             "len(term_acts) == len(json_actions)",
             # record i gives action i: the code as written, ...
             "forall(0, len(json_actions), lambda i: term_acts[i].action == json_actions[i]['action'])",
             # ... the state with the recorded id, or None when the record has none (NOT the state of another record), ...
             "forall(0, len(json_actions), lambda i: implies(haskey(json_actions[i], 'state_id'), "
             "term_acts[i].state == states_dict[json_actions[i]['state_id']]))",
             "forall(0, len(json_actions), lambda i: implies(not haskey(json_actions[i], 'state_id'), "
             "term_acts[i].state is None))",
             # ... and the production likewise
             "forall(0, len(json_actions), lambda i: implies(haskey(json_actions[i], 'prod_id'), "
             "term_acts[i].prod == grammar.productions[json_actions[i]['prod_id']]))",
             "forall(0, len(json_actions), lambda i: implies(not haskey(json_actions[i], 'prod_id'), "
             "term_acts[i].prod is None))",
         ],
         modifies=None,
         locals={"json_action": "dict[key,int]"},
         loops={0: {"inv": [
             "len(term_acts) == __i0",
             "forall(0, __i0, lambda i: live(term_acts[i]))",
             "forall(0, __i0, lambda i: term_acts[i].action == json_actions[i]['action'])",
             "forall(0, __i0, lambda i: implies(haskey(json_actions[i], 'state_id'), "
             "term_acts[i].state == states_dict[json_actions[i]['state_id']]))",
             "forall(0, __i0, lambda i: implies(not haskey(json_actions[i], 'state_id'), term_acts[i].state is None))",
             "forall(0, __i0, lambda i: implies(haskey(json_actions[i], 'prod_id'), "
             "term_acts[i].prod == grammar.productions[json_actions[i]['prod_id']]))",
             "forall(0, __i0, lambda i: implies(not haskey(json_actions[i], 'prod_id'), term_acts[i].prod is None))",
         ]}},
         check_termination=False, properties=("C12",))

# (the encoding half, _dump_actions, was attempted: 37 of 43 obligations discharge; the preservation of the record
# invariants across the dict allocated in each iteration times out -- it stays with the bounded round-trip check)
PERSIST_C12 = ["parglare.tables.Action.__init__", "parglare.tables.persist.table_from_serializable"]
