"""Sidecar contract for the per-parse reset of GLRParser.parse (C15): a P-block over the run of statements from
`self.file_name = file_name` up to the creation of the start head.  After it, every piece of per-parse state has its
initial value whatever the previous parse left behind -- new empty containers (each its own object), flags cleared,
frontier counter at 0 -- so a parser that is used again starts like a fresh one."""
from vlib.pyvc.api import classes, contract

classes(
    "parglare.glr",
    GLRP=dict(fields={"file_name": "opt[str]", "errors": "list[any]", "_in_error_reporting": "bool",
                      "_expected": "set[any]", "_tokens_ahead": "list[any]", "_last_shifted_heads": "list[any]",
                      "_for_shifter": "list[any]", "_frontier": "int", "debug": "bool"}),
)

contract("parglare.glr.GLRParser.parse",
         block={"anchor": "self.file_name = file_name", "until": "start_head = GSSNode("},
         params={"self": "ref[GLRP]", "file_name": "opt[str]", "extra": "any"},
         requires=["allocated(self)"],
         ensures=[
             "self.file_name == file_name",
             "self._in_error_reporting == False and self._frontier == 0",
             # new, empty containers -- not the ones of the previous parse
             "fresh(self.errors) and len(self.errors) == 0",
             "fresh(self._tokens_ahead) and len(self._tokens_ahead) == 0",
             "fresh(self._last_shifted_heads) and len(self._last_shifted_heads) == 0",
             "fresh(self._for_shifter) and len(self._for_shifter) == 0",
             "fresh(self._expected) and not exists_ref(lambda t: t in self._expected)",
             # each its own object
             "self.errors != self._tokens_ahead and self.errors != self._last_shifted_heads and "
             "self.errors != self._for_shifter and self._tokens_ahead != self._last_shifted_heads and "
             "self._tokens_ahead != self._for_shifter and self._last_shifted_heads != self._for_shifter",
         ],
         modifies=None, check_termination=False, properties=("C15", "C11"))

classes(
    "parglare.parser",
    LRP=dict(fields={"errors": "list[any]", "in_error_recovery": "bool", "debug": "bool"}),
)

contract("parglare.parser.Parser.parse",
         block={"anchor": "extra = {} if extra is None else extra", "until": "next_token = self._next_token"},
         params={"self": "ref[LRP]", "extra": "any"},
         requires=["allocated(self)"],
         ensures=["fresh(self.errors) and len(self.errors) == 0", "self.in_error_recovery == False"],
         modifies=None, check_termination=False, properties=("C15", "C11"))

REUSE_C15 = ["parglare.glr.GLRParser.parse", "parglare.parser.Parser.parse"]
