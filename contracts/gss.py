"""Sidecar contracts for GSSNode (parglare/glr.py), the sites of defects 438e4a6 and 71435e1 (C01 / C07 / C08): a head
cloned for another look-ahead token is the same GSS node in every respect but the token -- state, position, frontier,
id, layout before and AFTER it, and a copy of its parent links."""
from vlib.pyvc.api import classes, contract

classes(
    "parglare.glr",
    StateG=dict(fields={"state_id": "int"}),
    TokG=dict(fields={}),
    GSSNode=dict(fields={"state": "ref[StateG]", "position": "int", "frontier": "int", "input_str": "any",
                         "file_name": "opt[str]", "extra": "any", "id": "str", "_ambiguity": "opt[int]",
                         "token_ahead": "opt[ref[TokG]]", "layout_content": "str", "layout_content_ahead": "str",
                         "debug": "bool", "parents": "dict[str,any]"}),
)

contract("parglare.glr.GSSNode.__init__",
         params={"self": "ref[GSSNode]", "file_name": "opt[str]", "input_str": "any", "state": "ref[StateG]",
                 "position": "int", "frontier": "int", "extra": "any", "ambiguity": "opt[int]",
                 "token_ahead": "opt[ref[TokG]]", "layout_content": "str", "layout_content_ahead": "str",
                 "debug": "bool"},
         defaults={"ambiguity": None, "token_ahead": None, "layout_content": "", "layout_content_ahead": "",
                   "debug": False},
         requires=["live(state)"],
         ensures=["self.state == state and self.position == position and self.frontier == frontier",
                  "self.input_str == input_str and self.file_name == file_name and self.extra == extra",
                  "self.token_ahead == token_ahead and self.layout_content == layout_content and "
                  "self.layout_content_ahead == layout_content_ahead and self.debug == debug",
                  "self._ambiguity == ambiguity",
                  # the node id is a function of (frontier, state id)
                  "self.id == str(frontier) + '_' + str(state.state_id)",
                  "fresh(self.parents) and forall_str(lambda k: not haskey(self.parents, k))"],
         modifies=["self.*"], properties=("C01",))

contract("parglare.glr.GSSNode.for_token",
         params={"self": "ref[GSSNode]", "token": "ref[TokG]"}, returns="ref[GSSNode]",
         requires=["allocated(self.state) and allocated(self.parents) and allocated(token)"],
         ensures=[
             "result.token_ahead == token",
             # this very node when it has no look-ahead yet or already has this one; otherwise a NEW node
             "(result == self) == (old(self.token_ahead) is None or old(self.token_ahead) == token)",
             "implies(result != self, fresh(result) and self.token_ahead == old(self.token_ahead))",
             # the clone differs in nothing but the look-ahead token
             "result.state == self.state and result.position == self.position and result.frontier == self.frontier and "
             "result.input_str == self.input_str and result.file_name == self.file_name and result.extra == self.extra",
             "result.layout_content == self.layout_content and result.layout_content_ahead == self.layout_content_ahead",
             "implies(result != self, result.id == str(self.frontier) + '_' + str(self.state.state_id))",
             # its parent links are a copy: same links, not the same dict
             "implies(result != self, fresh(result.parents) and forall_str(lambda k: "
             "haskey(result.parents, k) == haskey(self.parents, k) and "
             "implies(haskey(self.parents, k), result.parents[k] == self.parents[k])))",
         ],
         modifies=["self.token_ahead"], properties=("C01", "C07", "C08"),
         canaries=[("clone-shares-links", {"ensures": ["implies(result != self, result.parents == self.parents)"]})])

GSS_C01 = ["parglare.glr.GSSNode.__init__", "parglare.glr.GSSNode.for_token"]
