"""Sidecar contracts for GSSNode (parglare/glr.py), the sites of defects 438e4a6 and 71435e1 (C01 / C07 / C08): a head
cloned for another look-ahead token is the same GSS node in every respect but the token -- state, position, frontier,
id, layout before and AFTER it, and a copy of its parent links."""
from vlib.pyvc.api import classes, contract

classes(
    "parglare.glr",
    StateG=dict(fields={"state_id": "int"}),
    TokG=dict(fields={}),
    AltG=dict(fields={"context": "any"}),
    ParentG=dict(fields={"head": "opt[ref[GSSNode]]", "root": "ref[GSSNode]", "possibilities": "list[ref[AltG]]",
                         "_solutions": "opt[int]", "_ambiguities": "opt[int]", "start_position": "int",
                         "end_position": "int", "production": "any", "token": "opt[ref[TokG]]"}),
    GSSNode=dict(fields={"state": "ref[StateG]", "position": "int", "frontier": "int", "input_str": "any",
                         "file_name": "opt[str]", "extra": "any", "id": "str", "_ambiguity": "opt[int]",
                         "token_ahead": "opt[ref[TokG]]", "layout_content": "str", "layout_content_ahead": "str",
                         "debug": "bool", "parents": "dict[str,ref[ParentG]]"}),
)

contract("parglare.glr.GSSNode.__init__",
         params={"self": "ref[GSSNode]", "file_name": "opt[str]", "input_str": "any", "state": "ref[StateG]",
                 "position": "int", "frontier": "int", "extra": "any", "ambiguity": "opt[int]",
                 "token_ahead": "opt[ref[TokG]]", "layout_content": "str", "layout_content_ahead": "str",
                 "debug": "bool"},
         defaults={"ambiguity": None, "token_ahead": None, "layout_content": "", "layout_content_ahead": "",
                   "debug": False},
         requires=["live(state)"],
         ensures=["self.state == state and self.position == position and self.frontier == frontier",
                  "self.input_str == input_str and self.file_name == file_name and self.extra == extra",
                  "self.token_ahead == token_ahead and self.layout_content == layout_content and "
                  "self.layout_content_ahead == layout_content_ahead and self.debug == debug",
                  "self._ambiguity == ambiguity",
                  # (the node id -- an injective function of (frontier, state id) -- is NOT specified here: any proof
                  # about it would pin the string format, and a harmless change of format would then raise an alarm;
                  # functionality and injectivity of the id are checked by the companion on a grid, bounded)
                  "fresh(self.parents) and forall_str(lambda k: not haskey(self.parents, k))"],
         modifies=["self.*"], properties=("C01",))

contract("parglare.glr.GSSNode.for_token",
         params={"self": "ref[GSSNode]", "token": "ref[TokG]"}, returns="ref[GSSNode]",
         requires=["allocated(self.state) and allocated(self.parents) and allocated(token)"],
         ensures=[
             "result.token_ahead == token",
             # this very node when it has no look-ahead yet or already has this one; otherwise a NEW node
             "(result == self) == (old(self.token_ahead) is None or old(self.token_ahead) == token)",
             "implies(result != self, fresh(result) and self.token_ahead == old(self.token_ahead))",
             # the clone differs in nothing but the look-ahead token
             "result.state == self.state and result.position == self.position and result.frontier == self.frontier and "
             "result.input_str == self.input_str and result.file_name == self.file_name and result.extra == self.extra",
             "result.layout_content == self.layout_content and result.layout_content_ahead == self.layout_content_ahead",
             # its parent links are a copy: same links, not the same dict
             "implies(result != self, fresh(result.parents) and forall_str(lambda k: "
             "haskey(result.parents, k) == haskey(self.parents, k) and "
             "implies(haskey(self.parents, k), result.parents[k] == self.parents[k])))",
         ],
         modifies=["self.token_ahead"], properties=("C01", "C07", "C08"),
         canaries=[("clone-shares-links", {"ensures": ["implies(result != self, result.parents == self.parents)"]})])

# ---- links: nothing is lost when a second path reaches the same pair of nodes (C02) ------------------------------------
contract("parglare.glr.Parent.merge",
         params={"self": "ref[ParentG]", "other": "ref[ParentG]"},
         requires=["allocated(self.possibilities) and allocated(other.possibilities)",
                   "self.possibilities != other.possibilities"],
         ensures=[
             # the other link's alternatives are appended, in order, after the ones already there
             "len(self.possibilities) == old(len(self.possibilities)) + old(len(other.possibilities))",
             "forall(0, old(len(self.possibilities)), lambda i: self.possibilities[i] == old(self.possibilities[i]))",
             "forall(0, old(len(other.possibilities)), lambda i: "
             "self.possibilities[old(len(self.possibilities)) + i] == old(other.possibilities[i]))",
             # the cached tree count is invalidated; the list object and the other link stay
             "self._solutions is None",
             "len(other.possibilities) == old(len(other.possibilities))",
         ],
         modifies=["list(self.possibilities)", "self._solutions"], properties=("C02", "C03"))

contract("parglare.glr.GSSNode.create_link",
         params={"self": "ref[GSSNode]", "parent": "ref[ParentG]"}, returns="bool",
         requires=["allocated(self.parents) and allocated(parent.root) and allocated(parent.possibilities)",
                   "not self.debug",
                   "forall_str(lambda k: implies(haskey(self.parents, k), allocated(self.parents[k]) and "
                   "allocated(self.parents[k].possibilities) and self.parents[k] != parent and "
                   "self.parents[k].possibilities != parent.possibilities))"],
         ensures=[
             "parent.head == self",
             # a link to that root node is created iff there was none (links are keyed by the root node's id)
             "result == (not old(haskey(self.parents, parent.root.id)))",
             "implies(result, haskey(self.parents, parent.root.id) and self.parents[parent.root.id] == parent)",
             # otherwise the existing link stays and receives the new alternatives (none lost)
             "implies(not result, self.parents[parent.root.id] == old(self.parents[parent.root.id]) and "
             "len(self.parents[parent.root.id].possibilities) == "
             "old(len(self.parents[parent.root.id].possibilities)) + old(len(parent.possibilities)))",
             # links to other root nodes are untouched
             "forall_str(lambda k: implies(k != parent.root.id, haskey(self.parents, k) == old(haskey(self.parents, k)) and "
             "implies(haskey(self.parents, k), self.parents[k] == old(self.parents[k]))))",
         ],
         modifies=None, properties=("C01", "C02"))

contract("parglare.glr.Parent.__init__",
         params={"self": "ref[ParentG]", "head": "opt[ref[GSSNode]]", "root": "ref[GSSNode]", "start_position": "int",
                 "end_position": "opt[int]", "possibilities": "opt[list[ref[AltG]]]", "production": "any",
                 "token": "opt[ref[TokG]]"},
         defaults={"end_position": None, "possibilities": None, "production": None, "token": None},
         requires=["implies(possibilities is not None, live(possibilities) and "
                   "forall(0, len(possibilities), lambda i: live(possibilities[i])))"],
         ensures=[
             "self.root == root and self.head == head and self.start_position == start_position and "
             "self.token == token and self.production == production",
             # an omitted end position means an empty span
             "self.end_position == (end_position if end_position is not None else start_position)",
             "self._solutions is None and self._ambiguities is None",
             # given alternatives are adopted (the list itself) and re-pointed to this link
             # (whether the given list is adopted or copied is not specified)
             "implies(possibilities is not None and len(possibilities) > 0, "
             "(self.possibilities == possibilities or fresh(self.possibilities)) and "
             "len(self.possibilities) == len(possibilities) and "
             "forall(0, len(possibilities), lambda i: self.possibilities[i] == possibilities[i] and "
             "possibilities[i].context == self))",
             # a token gives exactly one (leaf) alternative, nothing gives none
             "implies((possibilities is None or len(possibilities) == 0) and token is not None, "
             "fresh(self.possibilities) and len(self.possibilities) == 1)",
             "implies((possibilities is None or len(possibilities) == 0) and token is None, "
             "fresh(self.possibilities) and len(self.possibilities) == 0)",
         ],
         modifies=["self.*", "field(AltG.context)"],
         loops={0: {"inv": ["forall(0, __i0, lambda i: possibilities[i].context == self)",
                            "self.possibilities == possibilities and self.root == root and self.head == head",
                            "self.start_position == start_position and self.token == token and "
                            "self.production == production and self._solutions is None and self._ambiguities is None",
                            "self.end_position == (end_position if end_position is not None else start_position)"]}},
         properties=("C01", "C08"))

contract("parglare.glr.Parent.clone_with_root",
         params={"self": "ref[ParentG]", "root": "ref[GSSNode]"}, returns="ref[ParentG]",
         requires=["allocated(self.possibilities) and allocated(root)",
                   "forall(0, len(self.possibilities), lambda i: allocated(self.possibilities[i]))",
                   # (a link holds either reduced alternatives or one token leaf; clones are made of token links)
                   "len(self.possibilities) >= 1"],
         ensures=[
             "fresh(result) and result != self",
             # the same link over the same span and token, from another root node
             "result.root == root and result.head == old(self.head) and result.start_position == old(self.start_position) and "
             "result.end_position == old(self.end_position) and result.token == old(self.token)",
             # with its OWN list holding the same alternatives
             "fresh(result.possibilities) and result.possibilities != self.possibilities and "
             "len(result.possibilities) == old(len(self.possibilities))",
             "forall(0, old(len(self.possibilities)), lambda i: result.possibilities[i] == old(self.possibilities[i]))",
             # this link keeps its alternatives (their context, however, now points to the clone: a clone takes them over)
             "len(self.possibilities) == old(len(self.possibilities)) and "
             "forall(0, old(len(self.possibilities)), lambda i: self.possibilities[i] == old(self.possibilities[i]))",
             "forall(0, old(len(self.possibilities)), lambda i: result.possibilities[i].context == result)",
         ],
         modifies=None, class_views={"Parent": "ParentG"}, properties=("C01", "C08"))

# (the typed view of glr.Parent is called ParentG here -- contracts/trees.py has its own view named Parent; calls of
# <ParentG>.merge find the contract through this alias)
from vlib.pyvc.api import REG  # noqa: E402
REG["parglare.glr.ParentG.merge"] = REG["parglare.glr.Parent.merge"]
REG["parglare.glr.ParentG.__init__"] = REG["parglare.glr.Parent.__init__"]

GSS_C01 = ["parglare.glr.GSSNode.__init__", "parglare.glr.GSSNode.for_token", "parglare.glr.Parent.__init__",
           "parglare.glr.Parent.merge", "parglare.glr.Parent.clone_with_root",
           "parglare.glr.GSSNode.create_link"]
