"""Sidecar contract for Parser._token_recognition (C07, first sentence): the scanner returns only tokens of terminals
expected in the current state whose recogniser matches at the head's position, and returns none exactly when none
matches -- whatever the candidate order, the early exit on a priority drop and the finish flags do.

Typed view (ASSUMED, listed in the evidence): `head.state.actions` is viewed as the sequence of its keys in
iteration order (the code only enumerates it); a recogniser is a total function of (symbol, input, position) returning
an opaque value whose truthiness decides the match (the TypeError fall-back to the three-argument form and the
tuple / additional-data form are outside the view).

ATTEMPTED AND NOT KEPT: "all tokens have one priority and no matching expected terminal has a higher one" (needs the
candidate order as a precondition).  The loop invariant for it (from the first match on, every candidate tried has that
match's priority) is preserved, but the postconditions built on it time out in z3 and cvc5 in three formulations
(existential witnesses, a ghost list of source indices, stepping-stone assertions); that clause stays with the bounded
check of C07."""
from vlib.pyvc.api import classes, contract

classes(
    "parglare.parser",
    SymS=dict(fields={"prior": "int", "recognizer": "func", "name": "str"}),
    StateS=dict(fields={"actions": "list[ref[SymS]]", "finish_flags": "list[bool]"}),
    HeadS=dict(fields={"input_str": "str", "position": "int", "state": "ref[StateS]"}),
    ParserS=dict(fields={"debug": "bool"}),
)

M = {
    "A": ((), "head.state.actions"),
    "F": ((), "head.state.finish_flags"),
    "rec": (("k",), "A()[k].recognizer(head.input_str, head.position)"),
    "matched": (("k",), "bool(rec(k))"),
}

contract("parglare.parser.Parser._token_recognition",
         params={"self": "ref[ParserS]", "head": "ref[HeadS]"}, returns="list[ref[Tok]]",
         requires=[
             "allocated(head.state) and allocated(A()) and allocated(F()) and len(F()) == len(A())",
             "forall(0, len(A()), lambda k: allocated(A()[k]))",
         ],
         ensures=[
             "fresh(result)",
             # every token is a match of an expected terminal at the head's position, carrying what the recogniser gave
             "forall(0, len(result), lambda j: exists(0, len(A()), lambda k: result[j].symbol == A()[k] and matched(k) and "
             "result[j].value == rec(k) and result[j].position == head.position))",
             # nothing matches  <=>  no token (no shortcut makes the scanner miss the input altogether)
             "(len(result) == 0) == (not exists(0, len(A()), lambda k: matched(k)))",
             # the tokens are new objects
             "forall(0, len(result), lambda j: fresh(result[j]) and live(result[j]))",
         ],
         modifies=[], macros=M,
         opaque={"SymS.recognizer": {"returns": "any", "pure": True}},
         locals={"tokens": "list[ref[Tok]]", "tok": "any", "additional_data": "any", "last_prior": "int"},
         loops={0: {"inv": [
             "fresh(tokens)",
             "0 <= __i0 and __i0 <= len(A())",
             "forall(0, len(tokens), lambda j: exists(0, __i0, lambda k: tokens[j].symbol == A()[k] and matched(k) and "
             "tokens[j].value == rec(k) and tokens[j].position == head.position))",
             "(len(tokens) == 0) == (not exists(0, __i0, lambda k: matched(k)))",
             "forall(0, len(tokens), lambda j: fresh(tokens[j]) and live(tokens[j]))",
         ]}},
         properties=("C07",),
         canaries=[("a-token-for-every-candidate", {"ensures": ["len(result) == len(A())"]})])

SCANNER_C07 = ["parglare.parser.Parser._token_recognition"]

# ---- Parser._next_tokens (C17 / C07): when is the end-of-input marker offered ------------------------------------------
classes(
    "parglare.parser",
    ParserN=dict(bases=("ParserD",), fields={"consume_input": "bool", "custom_token_recognition": "any"}),
)

contract("parglare.parser.Parser._next_tokens@plain",
         params={"self": "ref[ParserN]", "head": "ref[HeadS]"}, returns="list[ref[Tok]]",
         requires=[
             "not self.debug and not bool(self.custom_token_recognition)",
             "allocated(head.state) and allocated(A()) and allocated(F()) and len(F()) == len(A())",
             "forall(0, len(A()), lambda k: allocated(A()[k]))",
             "allocated(STOP_token) and 0 <= head.position",
         ],
         ensures=[
             # STOP is offered iff it is expected and (the input need not be consumed, or it is consumed)
             "implies(not self.lexical_disambiguation, exists(0, len(result), lambda j: result[j] == STOP_token) == "
             "(exists(0, len(A()), lambda k: A()[k] == STOP) and "
             "(not self.consume_input or head.position == len(head.input_str))))",
             # at (or past) the end of the input nothing is recognised: tokens cannot be empty
             "implies(not self.lexical_disambiguation and head.position >= len(head.input_str), "
             "forall(0, len(result), lambda j: result[j] == STOP_token))",
             # the head is not moved
             "head.position == old(head.position)",
         ],
         modifies=[], macros=M,
         globals={"STOP": ("ref[SymS]", None), "STOP_token": ("ref[Tok]", None)},
         opaque={"SymS.recognizer": {"returns": "any", "pure": True}},
         locals={"tokens": "list[ref[Tok]]", "actions": "list[ref[SymS]]"},
         properties=("C17", "C07", "C11"))

SCANNER_C17 = ["parglare.parser.Parser._next_tokens@plain"]
