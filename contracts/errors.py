"""Sidecar contracts for the error-rendering chain (C10: line/column correspond to the position, the
message says end of file exactly at the end of the input, rendering never fails)."""
from vlib.pyvc.api import classes, contract

classes(
    "parglare.common",
    Ctx=dict(fields={"position": "int", "input_str": "str", "file_name": "opt[str]",
                     "start_position": "opt[int]", "end_position": "opt[int]"}),
    Location=dict(fields={"start_position": "opt[int]", "end_position": "opt[int]", "input_str": "opt[str]",
                          "file_name": "opt[str]", "_line": "opt[int]", "_column": "opt[int]",
                          "_line_end": "opt[int]", "_column_end": "opt[int]"}),
    ErrorContext=dict(fields={"input_str": "str", "file_name": "opt[str]", "start_position": "int",
                              "end_position": "int"}),
    # view used for is_eof: the input may be any sequence (list inputs), not only text
    LocationSeq=dict(fields={"start_position": "opt[int]", "end_position": "opt[int]", "input_str": "any"}),
)

# ---- common.pos_to_line_col, textual input -----------------------------------------------------------------
contract("parglare.common.pos_to_line_col@str",
         params={"input_str": "str", "position": "opt[int]"}, returns="tuple[opt[int],opt[int]]",
         requires=["implies(position is not None, 0 <= position and position <= len(input_str))"],
         ensures=[
             "implies(position is None, result[0] is None and result[1] is None)",
             # line = 1 + number of newlines before the position
             "implies(position is not None, result[0] == 1 + input_str[:position].count('\\n'))",
             # column = distance to the start of the line: in range, the line start is preceded by a newline (or is
             # the start of the input) and there is no newline between the line start and the position
             "implies(position is not None, 0 <= result[1] and result[1] <= position)",
             "implies(position is not None and result[1] < position, input_str[position - result[1] - 1] == '\\n')",
             "implies(position is not None, forall(position - result[1], position, lambda k: input_str[k] != '\\n'))",
         ],
         modifies=[], properties=("C10", "C11"),
         canaries=[("column-off-by-one", {"ensures": [
             "implies(position is not None and result[1] < position, input_str[position - result[1]] == '\\n')"]})])

contract("parglare.common.Location.is_eof",
         params={"self": "ref[LocationSeq]"}, returns="bool",
         ensures=["result == (self.input_str is not None and self.start_position is not None and "
                  "self.start_position == len(self.input_str))"],
         modifies=[], properties=("C10",))

contract("parglare.common.ErrorContext.__init__",
         params={"self": "ref[ErrorContext]", "context": "ref[Ctx]"},
         ensures=["self.start_position == context.position and self.end_position == context.position",
                  "self.input_str == context.input_str and self.file_name == context.file_name"],
         modifies=["self.*"], properties=("C10", "C11"))

# ---- exceptions.get_line_col_at_position ---------------------------------------------------------------------
contract("parglare.exceptions.get_line_col_at_position",
         params={"text": "str", "pos": "int"},
         returns="tuple[opt[int],opt[int],opt[str],opt[str]]",
         requires=["0 <= pos"],
         # never raises (no `raises` clause: every implicit exception is a safety obligation), and
         ensures=[
             # positions inside the text or at its end always get a line and a column
             "implies(pos <= len(text), result[0] is not None and result[1] is not None and result[2] is not None)",
             "implies(pos > len(text), result[0] is None and result[1] is None)",
             "implies(pos <= len(text), 0 <= result[0] and 0 <= result[1])",
             # inside the text: the column is the offset from the start of that line
             "implies(pos < len(text), lineoff(result[0]) + result[1] == pos and result[1] < len(text))",
         ],
         modifies=[], locals={"lines": "list[str]"},
         loops={0: {"inv": ["current_pos == lineoff(__i0)", "current_pos <= pos", "pos < len(text)",
                            "0 <= __i0 and __i0 <= len(lines)"]}},
         properties=("C10",),
         canaries=[("column-ignores-line-start", {"ensures": ["implies(pos < len(text), result[1] == pos)"]})])

ERRORS_C10 = ["parglare.common.pos_to_line_col@str", "parglare.common.Location.is_eof",
              "parglare.common.ErrorContext.__init__", "parglare.exceptions.get_line_col_at_position"]
