"""Sidecar contracts for LRItem (parglare/tables/__init__.py), the part of C05 that defect 3039629 lived in: an item
advanced over a symbol carries a COPY of the look-ahead (follow) set -- look-aheads merged later into the successor's
kernel item must not leak back into the item they were copied from."""
from vlib.pyvc.api import classes, contract

classes(
    "parglare.tables",
    SymI=dict(fields={}),
    ProdI=dict(fields={"symbol": "ref[SymI]", "rhs": "list[ref[SymI]]", "prod_id": "int"}),
    LRItem=dict(fields={"production": "ref[ProdI]", "position": "int", "follow": "set[ref[SymI]]"}),
)

contract("parglare.tables.LRItem.__init__",
         params={"self": "ref[LRItem]", "production": "ref[ProdI]", "position": "int",
                 "follow": "opt[set[ref[SymI]]]"},
         defaults={"follow": None},
         requires=["implies(follow is not None, live(follow))"],
         ensures=["self.production == production and self.position == position",
                  # a non-empty set is stored as given, otherwise a NEW empty set (never a shared default)
                  # (whether the given set is stored or copied is not specified: only its members matter to C05)
                  "implies(follow is not None and exists_ref(lambda t: t in follow), "
                  "(self.follow == follow or fresh(self.follow)) and forall_ref(lambda t: (t in self.follow) == (t in follow)))",
                  "implies(follow is None or not exists_ref(lambda t: t in follow), "
                  "fresh(self.follow) and not exists_ref(lambda t: t in self.follow))"],
         modifies=["self.*"], properties=("C05",))

contract("parglare.tables.LRItem.get_pos_inc",
         params={"self": "ref[LRItem]"}, returns="opt[ref[LRItem]]",
         requires=["allocated(self.follow)", "allocated(self.production)", "allocated(self.production.rhs)",
                   "0 <= self.position"],
         ensures=[
             "(result is None) == (self.position >= len(self.production.rhs))",
             "implies(result is not None, fresh(result) and result.production == self.production and "
             "result.position == self.position + 1)",
             # the look-ahead set is copied: same members, NOT the same object
             "implies(result is not None, fresh(result.follow) and result.follow != self.follow)",
             "implies(result is not None, forall_ref(lambda t: (t in result.follow) == (t in self.follow)))",
         ],
         modifies=[], properties=("C05",),
         canaries=[("follow-shared", {"ensures": ["implies(result is not None, result.follow == self.follow)"]})])

contract("parglare.tables.LRItem.is_at_end",
         params={"self": "ref[LRItem]"}, returns="bool",
         requires=["allocated(self.production)", "allocated(self.production.rhs)"],
         ensures=["result == (self.position == len(self.production.rhs))"], modifies=[], properties=("C05",))

contract("parglare.tables.LRItem.symbol_at_position",
         params={"self": "ref[LRItem]"}, returns="ref[SymI]",
         requires=["allocated(self.production)", "allocated(self.production.rhs)",
                   "0 <= self.position and self.position < len(self.production.rhs)"],
         ensures=["result == self.production.rhs[self.position]"], modifies=[], properties=("C05",))

ITEMS_C05 = ["parglare.tables.LRItem.__init__", "parglare.tables.LRItem.get_pos_inc",
             "parglare.tables.LRItem.is_at_end", "parglare.tables.LRItem.symbol_at_position"]
