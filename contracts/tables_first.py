"""Sidecar contract for the fixpoint loop of parglare.tables.first (C05): a P-block.

The result is the LEAST fixpoint of the FIRST rules:
  * soundness: at every point, first_sets is contained in EVERY relation TF that is closed under the FIRST
    rules (TF is an uninterpreted predicate constrained only by the closure axioms R2/R3 and by the block's
    entry condition), hence in the least such relation;
  * closedness: when the `while additions` loop exits, first_sets itself is closed under the rules.
Termination of the while loop is NOT proved here (bounded stand-in: the table-construction budget of C05).
"""
from vlib.pyvc.api import classes, contract

classes(
    "parglare.grammar",
    Sym=dict(fields={}),
    Prod=dict(fields={"symbol": "ref[Sym]", "rhs": "list[ref[Sym]]"}),
    GrammarT=dict(fields={"productions": "list[ref[Prod]]"}),
)

M = {
    "FS": (("x",), "first_sets[x]"),
    "PR": (("q",), "grammar.productions[q]"),
    "keys_ok": ((), "forall(0, len(grammar.productions), lambda q: allocated(PR(q)) and allocated(PR(q).rhs) and "
                    "haskey(first_sets, PR(q).symbol) and "
                    "forall(0, len(PR(q).rhs), lambda i: haskey(first_sets, PR(q).rhs[i])))"),
    "sets_distinct": ((), "forall_ref(lambda a: forall_ref(lambda b: implies(haskey(first_sets, a) and "
                          "haskey(first_sets, b) and a != b, first_sets[a] != first_sets[b])))"),
    "sets_alloc": ((), "forall_ref(lambda a: implies(haskey(first_sets, a), allocated(first_sets[a])))"),
    "sound": ((), "forall_ref(lambda X: forall_ref(lambda t: implies(haskey(first_sets, X) and (t in first_sets[X]), "
                  "TF(X, t))))"),
    "closed": (("q",),
               "forall(0, len(PR(q).rhs), lambda i: forall_ref(lambda t: implies("
               "forall(0, i, lambda k: EMPTY in FS(PR(q).rhs[k])) and (t in FS(PR(q).rhs[i])) and t != EMPTY, "
               "t in FS(PR(q).symbol)))) and "
               "implies(forall(0, len(PR(q).rhs), lambda k: EMPTY in FS(PR(q).rhs[k])), EMPTY in FS(PR(q).symbol))"),
}

WF = ["keys_ok()", "sets_distinct()", "sets_alloc()", "allocated(grammar.productions)"]

contract("parglare.tables.first",
         block={"anchor": "while additions"},
         params={"grammar": "ref[GrammarT]", "first_sets": "dict[ref[Sym],set[ref[Sym]]]", "additions": "bool"},
         requires=WF + [
             "sound()",            # entry: terminals map to {t}, nonterminals to {} (initialisation loops, ASSUMED)
             # TF is ANY relation closed under the FIRST rules:
             "forall(0, len(grammar.productions), lambda q: forall(0, len(PR(q).rhs), lambda i: forall_ref(lambda t: "
             "implies(forall(0, i, lambda k: TF(PR(q).rhs[k], EMPTY)) and TF(PR(q).rhs[i], t) and t != EMPTY, "
             "TF(PR(q).symbol, t)))))",
             "forall(0, len(grammar.productions), lambda q: implies(forall(0, len(PR(q).rhs), lambda k: "
             "TF(PR(q).rhs[k], EMPTY)), TF(PR(q).symbol, EMPTY)))",
             "additions",
         ],
         ensures=["sound()"],
         modifies=None,
         globals={"EMPTY": ("ref[Sym]", None)},
         ufuns={"TF": (["ref[Sym]", "ref[Sym]"], "bool")},
         locals={"rhs_symbol_first": "set[ref[Sym]]", "nonterm": "ref[Sym]", "rhs_symbol": "ref[Sym]", "p": "ref[Prod]"},
         loops={
             0: {"inv": WF + ["sound()"]},
             1: {"inv": WF + ["sound()"]},
             2: {"inv": WF + ["sound()",
                              "0 < __i1 and __i1 <= len(grammar.productions)",
                              "p == grammar.productions[__i1 - 1] and nonterm == p.symbol",
                              "forall(0, __i2, lambda k: EMPTY in FS(p.rhs[k]))"]},
         },
         macros=M, check_termination=False, properties=("C05",),
         wired=False)   # ATTEMPT: 63 of 68 obligations discharge; not part of any check (see DESIGN.md 0.8)

FIRST_C05 = ["parglare.tables.first"]
