"""Sidecar contract for the conflict-resolution block of parglare.tables.create_table (C06): a P-block.

The block is the statement `if terminal not in actions: ... else: <resolve>` executed for one (reduction, look-ahead
terminal) pair.  The contract is the documented static disambiguation rule for ONE table cell:
  * shift/reduce: the higher priority wins; on equal priority `left` takes the reduction, `right` keeps the shift,
    no associativity keeps BOTH unless prefer_shifts (non-empty production, not `nops`) or prefer_shifts_over_empty
    (empty production, not `nopse`) keeps only the shift;
  * reduce/reduce: higher priority replaces all reductions in the cell, equal priority is added (conflict), lower
    priority is dropped;
and the cell invariant "all reductions in a cell have the same priority" is preserved.
Entry conditions (`requires`) are ASSUMED of the surrounding loops (they are the invariant this block preserves plus
typing facts); the loops around the block iterate over a set and are not verified (order independence is part of C16's
bounded check)."""
from vlib.pyvc.api import classes, contract

classes(
    "parglare.tables",
    SymR=dict(fields={}),
    ProdR=dict(fields={"prior": "int", "assoc": "int", "rhs": "list[ref[SymR]]", "nops": "bool", "nopse": "bool"}),
    StateR=dict(fields={"symbol": "ref[SymR]", "_max_prior_per_symbol": "dict[ref[SymR],int]"}),
    ActR=dict(fields={"action": "int", "state": "opt[ref[StateR]]", "prod": "opt[ref[ProdR]]"}),
)

G = {"SHIFT": ("int", 0), "REDUCE": ("int", 1), "ACCEPT": ("int", 2),
     "ASSOC_NONE": ("int", 0), "ASSOC_LEFT": ("int", 1), "ASSOC_RIGHT": ("int", 2), "DEFAULT_PRIORITY": ("int", 10)}

# Everything about the cell BEFORE the block is read inside old(...): the list object is updated in place, so
# `len(old(actions[terminal]))` would be the NEW length of the old object.
M = {
    "had": ((), "old(haskey(actions, terminal))"),
    "n0": ((), "old(len(actions[terminal]))"),
    "e0": (("k",), "old(actions[terminal][k])"),
    "L1": ((), "actions[terminal]"),
    "isshift0": (("k",), "old(actions[terminal][k].action == 0 or actions[terminal][k].action == 2)"),
    "isred0": (("k",), "old(actions[terminal][k].action == 1)"),
    "redprior0": (("k",), "old(actions[terminal][k].prod.prior)"),
    # priority the existing shift competes with
    "shp0": (("k",), "old(10 if actions[terminal][k].action == 2 else "
                     "state._max_prior_per_symbol[actions[terminal][k].state.symbol])"),
    "pprior": ((), "old(prod.prior)"),
    "passoc": ((), "old(prod.assoc)"),
    "pref": ((), "old((len(prod.rhs) == 0 and prefer_shifts_over_empty and not prod.nopse) or "
                 "(len(prod.rhs) != 0 and prefer_shifts and not prod.nops))"),
    "reduce_beats": (("k",), "(pprior() > shp0(k) or (pprior() == shp0(k) and passoc() == 1))"),
    "shift_beats": (("k",), "(pprior() < shp0(k) or (pprior() == shp0(k) and (passoc() == 2 or "
                            "(passoc() != 1 and passoc() != 2 and pref()))))"),
    "beaten": ((), "exists(0, n0(), lambda k: isshift0(k) and shift_beats(k))"),
    "in1": (("x",), "exists(0, len(L1()), lambda j: L1()[j] == x)"),
}

WFCELL = [
    "allocated(prod) and allocated(prod.rhs) and allocated(new_reduce) and allocated(state)",
    "new_reduce.action == 1 and new_reduce.prod == prod",
    "implies(haskey(actions, terminal), allocated(actions[terminal]) and len(actions[terminal]) >= 1)",
    "implies(haskey(actions, terminal), forall(0, len(actions[terminal]), lambda k: allocated(actions[terminal][k]) and "
    "actions[terminal][k] != new_reduce and "
    "(actions[terminal][k].action == 0 or actions[terminal][k].action == 1 or actions[terminal][k].action == 2) and "
    "implies(actions[terminal][k].action == 1, actions[terminal][k].prod is not None) and "
    "implies(actions[terminal][k].action == 0, actions[terminal][k].state is not None and "
    "haskey(state._max_prior_per_symbol, actions[terminal][k].state.symbol))))",
    # the cell's elements are distinct objects, at most one of them is a SHIFT/ACCEPT
    "implies(haskey(actions, terminal), forall(0, len(actions[terminal]), lambda k: forall(0, k, lambda m: "
    "actions[terminal][m] != actions[terminal][k] and "
    "not ((actions[terminal][m].action == 0 or actions[terminal][m].action == 2) and "
    "(actions[terminal][k].action == 0 or actions[terminal][k].action == 2)))))",
    # CELL INVARIANT (preserved, see ensures): all reductions in the cell have the same priority
    "implies(haskey(actions, terminal), forall(0, len(actions[terminal]), lambda k: forall(0, len(actions[terminal]), "
    "lambda m: implies(actions[terminal][k].action == 1 and actions[terminal][m].action == 1, "
    "actions[terminal][k].prod.prior == actions[terminal][m].prod.prior))))",
]

contract("parglare.tables.create_table",
         block={"anchor": "if terminal not in actions"},
         params={"actions": "dict[ref[SymR],list[ref[ActR]]]", "terminal": "ref[SymR]", "new_reduce": "ref[ActR]",
                 "prod": "ref[ProdR]", "state": "ref[StateR]", "prefer_shifts": "bool",
                 "prefer_shifts_over_empty": "bool"},
         requires=WFCELL,
         ensures=[
             "haskey(actions, terminal)",
             # free cell: the reduction is entered
             "implies(not had(), len(L1()) == 1 and L1()[0] == new_reduce)",
             # nothing foreign enters an occupied cell (whether the cell keeps its list object is not specified)
             "implies(had(), forall(0, len(L1()), lambda j: L1()[j] == new_reduce or "
             "exists(0, n0(), lambda k: L1()[j] == e0(k))))",
             # SHIFT/REDUCE: the shift stays unless the reduction beats it
             "implies(had(), forall(0, n0(), lambda k: implies(isshift0(k), in1(e0(k)) == (not reduce_beats(k)))))",
             # ... and if the shift beats the reduction the cell is left exactly as it was
             "implies(had() and beaten(), len(L1()) == n0() and forall(0, n0(), lambda k: L1()[k] == e0(k)))",
             # REDUCE/REDUCE (when the reduction is not beaten by a shift): it enters iff no reduction of the cell has a
             # higher priority; the old reductions stay iff theirs is not lower
             "implies(had() and not beaten(), in1(new_reduce) == forall(0, n0(), lambda k: implies(isred0(k), "
             "pprior() >= redprior0(k))))",
             # (kept: proved for cells from which no shift is removed; when the reduction removes a beaten shift the
             # solvers do not find the index witness across list.remove -- that case is the companion's alone)
             "implies(had() and not beaten() and not exists(0, n0(), lambda k: isshift0(k) and reduce_beats(k)), "
             "forall(0, n0(), lambda k: implies(isred0(k) and pprior() <= redprior0(k), in1(e0(k)))))",
             "implies(had() and not beaten(), forall(0, n0(), lambda k: implies(isred0(k) and pprior() > redprior0(k), "
             "not in1(e0(k)))))",
             # no duplicates are created
             "forall(0, len(L1()), lambda k: forall(0, k, lambda m: L1()[m] != L1()[k]))",
             # the cell invariant is preserved
             "forall(0, len(L1()), lambda k: forall(0, len(L1()), lambda m: implies(L1()[k].action == 1 and "
             "L1()[m].action == 1, L1()[k].prod.prior == L1()[m].prod.prior)))",
         ],
         modifies=None, globals=G, macros=M,
         locals={"t_acts": "list[ref[ActR]]", "shifts": "list[ref[ActR]]", "t_reduces": "list[ref[ActR]]",
                 "t_shift": "opt[ref[ActR]]", "should_reduce": "bool", "sh_prior": "int"},
         check_termination=False, properties=("C06",),
         canaries=[("right-takes-the-reduction", {"ensures": [
             "implies(had(), forall(0, n0(), lambda k: implies(isshift0(k) and pprior() == shp0(k) and passoc() == 2, "
             "not in1(e0(k)))))"]}),
                   ("prefer-shifts-ignored", {"ensures": [
                       "implies(had() and exists(0, n0(), lambda k: isshift0(k) and pprior() == shp0(k) and "
                       "passoc() == 0 and pref()), in1(new_reduce))"]})])

RESOLVE_C06 = ["parglare.tables.create_table"]
