"""Sidecar contracts for the built-in collecting actions (parglare/actions.py), the results half of C13
(x+ gives the list of matches, x? the match or None, separators dropped) and the sharing discipline C09 relies
on: an action never mutates a sub-result it was handed (GLR hands the same sub-result to several parents)."""
from vlib.pyvc.api import contract

# `nodes` is the list of sub-results of one production; a collected list is itself one of its elements.
# (typed view: elements are opaque values; an element used as a list is stated as such in `locals`)

contract("parglare.actions.pass_none",
         params={"_": "any", "value": "any", "args": "any"}, returns="opt[any]", ensures=["result is None"], modifies=[],
         properties=("C13",))

contract("parglare.actions.pass_nochange",
         params={"_": "any", "value": "any", "args": "any"}, returns="any", ensures=["result == value"], modifies=[],
         properties=("C13",))

contract("parglare.actions.pass_empty",
         params={"_": "any", "value": "any", "args": "any"}, returns="list[any]",
         ensures=["fresh(result)", "len(result) == 0"], modifies=[], properties=("C13",))

contract("parglare.actions.pass_single",
         params={"_": "any", "nodes": "list[any]"}, returns="any",
         requires=["len(nodes) >= 1"], ensures=["result == nodes[0]"], modifies=[], properties=("C13",))

# Elements: Elements Element  -- the accumulated list is COPIED, then extended (never changed in place)
contract("parglare.actions.collect_first",
         params={"_": "any", "nodes": "list[list[any]]"}, returns="list[any]",
         requires=["len(nodes) == 2", "allocated(nodes[0])"],
         locals={"e1": "list[any]", "e2": "opt[any]"},
         ensures=[
             # (a missing element: the accumulated list as it is -- the same object or a copy, not specified)
             "implies(nodes[1] is None, (result == nodes[0] or fresh(result)) and len(result) == old(len(nodes[0])) and "
             "forall(0, old(len(nodes[0])), lambda i: result[i] == old(nodes[0][i])))",
             "implies(nodes[1] is not None, fresh(result) and len(result) == old(len(nodes[0])) + 1)",
             "implies(nodes[1] is not None, forall(0, old(len(nodes[0])), lambda i: result[i] == old(nodes[0][i])))",
             "implies(nodes[1] is not None, result[old(len(nodes[0]))] == nodes[1])",
         ],
         modifies=[], properties=("C13", "C09"))

# Elements: Elements "," Element  -- as collect_first, the separator (nodes[1]) is dropped
contract("parglare.actions.collect_first_sep",
         params={"_": "any", "nodes": "list[list[any]]"}, returns="list[any]",
         requires=["len(nodes) == 3", "allocated(nodes[0])"],
         locals={"e1": "list[any]", "e2": "opt[any]"},
         ensures=[
             "implies(nodes[2] is None, (result == nodes[0] or fresh(result)) and len(result) == old(len(nodes[0])) and "
             "forall(0, old(len(nodes[0])), lambda i: result[i] == old(nodes[0][i])))",
             "implies(nodes[2] is not None, fresh(result) and len(result) == old(len(nodes[0])) + 1)",
             "implies(nodes[2] is not None, forall(0, old(len(nodes[0])), lambda i: result[i] == old(nodes[0][i])))",
             "implies(nodes[2] is not None, result[old(len(nodes[0]))] == nodes[2])",
         ],
         modifies=[], properties=("C13", "C09"))

# Elements: Element Elements  -- a NEW list [Element] + Elements; the tail list is not changed
contract("parglare.actions.collect_right_first",
         params={"_": "any", "nodes": "list[list[any]]"}, returns="list[any]",
         requires=["len(nodes) >= 2", "allocated(nodes[1])"],
         locals={"e1": "list[any]", "e2": "list[any]"},
         ensures=[
             "fresh(result) and len(result) == old(len(nodes[1])) + 1",
             "result[0] == nodes[0]",
             "forall(0, old(len(nodes[1])), lambda i: result[i + 1] == old(nodes[1][i]))",
         ],
         modifies=[], properties=("C13", "C09"))

contract("parglare.actions.collect_right_first_sep",
         params={"_": "any", "nodes": "list[list[any]]"}, returns="list[any]",
         requires=["len(nodes) >= 3", "allocated(nodes[2])"],
         locals={"e1": "list[any]", "e2": "list[any]"},
         ensures=[
             "fresh(result) and len(result) == old(len(nodes[2])) + 1",
             "result[0] == nodes[0]",
             "forall(0, old(len(nodes[2])), lambda i: result[i + 1] == old(nodes[2][i]))",
         ],
         modifies=[], properties=("C13", "C09"))

ACTIONS_C13 = ["parglare.actions.pass_none", "parglare.actions.pass_nochange", "parglare.actions.pass_empty",
               "parglare.actions.pass_single", "parglare.actions.collect_first", "parglare.actions.collect_first_sep",
               "parglare.actions.collect_right_first", "parglare.actions.collect_right_first_sep"]
