"""Sidecar contracts for the qualified names of imported grammars (parglare/grammar.py, C20): the name of an import is
the dotted path of module names along the chain of FIRST imports (`imported_with`), outermost first, and a symbol's
qualified name is that path followed by the symbol's own name.

QN / SQN are specification functions defined by exactly that recursion; the definition is supplied as a precondition
(quantified over all import nodes), the recursive call goes through the function's own contract (termination = the import
chain is acyclic, ASSUMED)."""
from vlib.pyvc.api import classes, contract

classes(
    "parglare.grammar",
    ImportG=dict(fields={"module_name": "str", "imported_with": "opt[ref[ImportG]]"},
                 props={"fqn": "parglare.grammar.PGFileImport.fqn"}),
    SymG=dict(fields={"name": "str", "imported_with": "opt[ref[ImportG]]"}),
)

contract("parglare.grammar.PGFileImport.fqn",
         params={"self": "ref[ImportG]"}, returns="str",
         requires=["implies(self.imported_with is not None, allocated(self.imported_with))",
                   # definition of the specification function QN (for every import node)
                   "forall_ref('ImportG', lambda n: QN(n) == ((QN(n.imported_with) + '.' + n.module_name) if n.imported_with is not None "
                   "else n.module_name))"],
         ensures=["result == QN(self)"],
         modifies=[], ufuns={"QN": (["ref[ImportG]"], "str")}, check_termination=False, properties=("C20",),
         canaries=[("innermost-first", {"ensures": [
             "implies(self.imported_with is not None, result == self.module_name + '.' + QN(self.imported_with))"]})])

contract("parglare.grammar.GrammarSymbol.fqn",
         params={"self": "ref[SymG]"}, returns="str",
         requires=["implies(self.imported_with is not None, allocated(self.imported_with))",
                   "forall_ref('ImportG', lambda n: QN(n) == ((QN(n.imported_with) + '.' + n.module_name) if n.imported_with is not None "
                   "else n.module_name))"],
         ensures=["result == ((QN(self.imported_with) + '.' + self.name) if self.imported_with is not None else self.name)"],
         modifies=[], ufuns={"QN": (["ref[ImportG]"], "str")}, properties=("C20",))

IMPORTS_C20 = ["parglare.grammar.PGFileImport.fqn", "parglare.grammar.GrammarSymbol.fqn"]
