"""Sidecar contracts for error recovery (C11): the default strategy terminates, makes progress and sets a
look-ahead; the error span ends at the resume position."""
from vlib.pyvc.api import classes, contract

classes(
    "parglare.parser",
    Token=dict(fields={"symbol": "any", "value": "any", "length": "int", "position": "opt[int]"}, truthy="always"),
    Head=dict(fields={"position": "int", "input_str": "any", "token_ahead": "opt[ref[Token]]", "state": "any",
                      "file_name": "opt[str]"}),
    SynErr=dict(fields={"location": "ref[Location]"}),
    Parser=dict(fields={"error_recovery": "any", "debug": "bool", "parse_stack": "list[ref[Head]]",
                        "errors": "list[ref[SynErr]]", "in_error_recovery": "bool"}),
)

# Parser._next_token: single look-ahead or None; may raise DisambiguationError; does not move the head.
# (verified separately below against the contract of _next_tokens, which is ASSUMED: it runs user recognisers)
contract("parglare.parser.Parser._next_tokens",
         params={"self": "ref[Parser]", "head": "ref[Head]"}, returns="list[ref[Token]]",
         ensures=["fresh(result) or True"], modifies=[], trusted=True,
         note="runs the recognisers of the expected terminals (user code, regular expressions); assumed to leave the "
              "head untouched -- PROVED separately for the configuration without custom token recognition as "
              "Parser._next_tokens@plain (contracts/scanner.py, empty modifies set), where the remaining trust is that "
              "recognisers are pure; its observable behaviour is the subject of C07's bounded check")

contract("parglare.parser.Parser._next_token",
         params={"self": "ref[Parser]", "head": "ref[Head]"}, returns="opt[ref[Token]]",
         raises_may={"DisambiguationError": "True"},
         ensures=["head.position == old(head.position) and head.token_ahead == old(head.token_ahead)"],
         modifies=[], properties=("C07", "C10", "C11"))

contract("parglare.parser.Parser.default_error_recovery",
         params={"self": "ref[Parser]", "head": "ref[Head]"}, returns="bool",
         # no precondition on head.position: a custom strategy may call this with any position
         raises_may={"DisambiguationError": "True"},
         ensures=[
             # success: strictly advanced, still inside the input, and a look-ahead is set
             "implies(result, old(head.position) < head.position and head.position <= len(head.input_str) and "
             "head.token_ahead is not None)",
             # failure: the whole rest of the input was scanned
             "implies(not result, head.position >= len(head.input_str) and head.position >= old(head.position) and "
             "head.token_ahead == old(head.token_ahead))",
         ],
         modifies=["head.position", "head.token_ahead"],
         loops={0: {"inv": ["head.position >= old(head.position)", "head.token_ahead == old(head.token_ahead)",
                            "head.input_str == old(head.input_str)"],
                    "dec": "len(head.input_str) - head.position"}},
         properties=("C11",),
         canaries=[("no-progress-needed", {"ensures": ["implies(result, head.position == old(head.position))"]})])

RECOVERY_C11 = ["parglare.parser.Parser._next_token", "parglare.parser.Parser.default_error_recovery"]
