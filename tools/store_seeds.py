#!/usr/bin/env python3
"""Hand tool: copy confirmed candidate seeded changes from /tmp/seed_out into /verif/seeded/<PID>-<X>/."""
import json, os, re, shutil, sys
ROOT = os.path.dirname(os.path.dirname(os.path.abspath(__file__)))
SKIP = {"C01/B": "fails tests/func/test_examples.py (rhapsody) on the repaired tree",
        "C04/A": "fails tests/func/test_examples.py (rhapsody) on the repaired tree (look-ahead propagation is essential once follow sets are no longer aliased)",
        "C05/A": "same change as C04/A: fails the rhapsody example test on the repaired tree",
        "C03/B": "no longer violates C03 on the repaired tree (Forest._check_index raises IndexError first); the engine reports the contract of _enumerate_children as unattached and the companion decides it",
        "C05/B": "its demonstration no longer fails on the repaired tree"}
for n in range(1, 21):
    pid = f"C{n:02d}"
    for X in "AB":
        tag = f"{pid}/{X}"
        src = f"/tmp/seed_out/{pid}/{X}"
        conf = f"/tmp/seed_confirm/{pid}_{X}.txt"
        if not os.path.exists(conf) or tag in SKIP:
            continue
        line = open(conf).read().strip()
        if pid == "C02" and X == "B":
            patch = open(f"{src}/patch_rebased.diff").read()
            line = "C02/B re-created by hand on the repaired tree (original hunk conflicts with fix 6301d7d): apply=ok demo_clean_exit=0 demo_mutated_exit=1 suite=2 known pglr failures only"
        else:
            if "apply=ok" not in line or "demo_clean_exit=0" not in line or "demo_mutated_exit=1" not in line or "test_pglr_viz" not in line:
                print("skip", tag, line); continue
            patch = open(f"/tmp/seed_confirm/{pid}_{X}.rebased.diff").read()
        d = os.path.join(ROOT, "seeded", f"{pid}-{X}")
        os.makedirs(d, exist_ok=True)
        open(os.path.join(d, "patch.diff"), "w").write(patch)
        shutil.copy(f"{src}/demo.py", os.path.join(d, "demo.py"))
        notes = open(f"{src}/notes.md").read() if os.path.exists(f"{src}/notes.md") else ""
        open(os.path.join(d, "notes.md"), "w").write(notes)
        meta = {"id": f"{pid}-{X}", "property": pid, "origin": "fresh sub-agent given only the property text and a scratch worktree",
                "files_changed": sorted(set(re.findall(r"^\+\+\+ b/(\S+)", patch, re.M))),
                "needs_to_manifest": "see notes.md (written by the author of the change)",
                "confirmed": {"how": "tools/confirm_seed.sh in a scratch worktree of /repo HEAD: patch applies, demo exits 0 without and 1 with the change, pytest gives the baseline result (264 pass, 2 known pglr failures)",
                              "result": line},
                "caught_by": None}
        json.dump(meta, open(os.path.join(d, "meta.json"), "w"), indent=1)
        print("stored", tag)
json.dump(SKIP, open(os.path.join(ROOT, "seeded", "REJECTED.json"), "w"), indent=1)
