#!/usr/bin/env python3
"""Hand tool: apply every seeded change to /repo in turn, run the quick check of its property (and of
the extra properties listed below), ALWAYS revert, and record the outcome in seeded/<id>/meta.json and
seeded/RESULTS.md.  Never run by a registered command; never leaves /repo modified."""
import json, os, re, subprocess, sys

ROOT = os.path.dirname(os.path.dirname(os.path.abspath(__file__)))
EXTRA = {"C01-A": ["C05", "C10"], "C10-B": ["C05", "C01"], "C02-A": ["C05"], "C02-B": ["C05", "C01"], "C04-B": ["C05"],
         "C04-C": ["C05"], "C05-A": ["C04"], "C05-B": ["C04"], "C01-D": ["C14"], "C17-B": ["C08"], "C08-B": ["C17"],
         "C03-B": [], "C03-C": []}


def sh(cmd, **kw):
    return subprocess.run(cmd, shell=True, capture_output=True, text=True, **kw)


def clean():
    sh("git -C /repo checkout -- . ; git -C /repo clean -fdXq -- tests examples parglare; "
       "find /repo/parglare -name '*.rej' -o -name '*.orig' | xargs -r rm -f")


def main():
    only = [a for a in sys.argv[1:] if not a.startswith("--")]
    no_extra = "--no-extra" in sys.argv
    rows = []
    assert sh("git -C /repo diff --quiet").returncode == 0, "/repo has local changes"
    for sid in sorted(os.listdir(os.path.join(ROOT, "seeded"))):
        d = os.path.join(ROOT, "seeded", sid)
        if not os.path.isdir(d) or (only and sid not in only):
            continue
        meta = json.load(open(os.path.join(d, "meta.json")))
        pid = meta["property"]
        try:
            clean_demo = sh(f"cd /repo && timeout 300 /venv/bin/python {d}/demo.py")
            r = sh(f"git -C /repo apply {d}/patch.diff")
            if r.returncode != 0:
                r = sh(f"cd /repo && patch -p1 -s --no-backup-if-mismatch < {d}/patch.diff")
            if r.returncode != 0:
                rows.append((sid, pid, "PATCH DOES NOT APPLY", ""))
                meta["caught_by"] = {"error": "patch does not apply to the current tree"}
                continue
            demo = sh(f"cd /repo && timeout 300 /venv/bin/python {d}/demo.py")
            res = {}
            for p in [pid] + ([] if no_extra else EXTRA.get(sid, [])):
                c = sh(f"cd {ROOT} && timeout 3000 bin/check {p} --tier quick")
                mons = re.findall(r"new violations by monitor: (\{.*\})", c.stdout)
                viol = [l for l in c.stdout.splitlines() if l.startswith("VIOLATION")]
                first = ""
                if viol:
                    m = re.search(r"replay=(\S+)", viol[0])
                    try:
                        first = json.load(open(m.group(1)))["monitor"]
                    except Exception:
                        pass
                res[p] = {"exit": c.returncode, "violation_lines": len(viol), "first_reported": first,
                          "monitors": mons[0] if mons else "", "summary": (c.stdout.strip().splitlines() or [""])[-1][:200]}
            meta["caught_by"] = {"repo_head": sh("git -C /repo log --format=%h -1").stdout.strip(),
                                 "demo_exit_unchanged_tree": clean_demo.returncode,
                                 "demo_exit_with_change": demo.returncode, "checks": res}
            own = res[pid]
            status = "CAUGHT" if own["exit"] == 1 else f"exit {own['exit']}"
            if clean_demo.returncode != 0 or demo.returncode == 0:
                status += f" (demo: unchanged exit {clean_demo.returncode}, changed exit {demo.returncode})"
            rows.append((sid, pid, status,
                         "; ".join(f"{p}: exit {v['exit']} {v['first_reported']} {v['monitors'][:120]}" for p, v in res.items())))
        finally:
            clean()
            json.dump(meta, open(os.path.join(d, "meta.json"), "w"), indent=1)
        print(rows[-1][:3], flush=True)
    if not only:
        with open(os.path.join(ROOT, "seeded", "RESULTS.md"), "w") as f:
            f.write("# Seeded changes vs. the quick checks (tools/run_seeds.py)\n\n"
                    "Each change was applied to /repo, the listed checks were run at tier quick, and /repo was reverted.\n"
                    "`CAUGHT` = the check of the seed's own property exits 1 with a VIOLATION line.\n\n"
                    "| seed | property | own check | checks run (exit, first reported monitor / obligation, firing monitors) |\n|---|---|---|---|\n")
            for r in rows:
                f.write("| " + " | ".join(str(x).replace("|", "\\|") for x in r) + " |\n")
    assert sh("git -C /repo diff --quiet").returncode == 0


if __name__ == "__main__":
    main()
