#!/usr/bin/env python3
"""Writes MANIFEST.json from the table below (hand tool; keeps the file schema-valid)."""
import json
import os

ROOT = os.path.dirname(os.path.dirname(os.path.abspath(__file__)))
props = [json.loads(l) for l in open(os.path.join(ROOT, "properties.jsonl"))]

# pid -> (category, level text, level note, technique, design_ref)
CLAIMS = json.load(open(os.path.join(ROOT, "tools", "claims.json")))

checks = []
na = []
for p in props:
    pid = p["id"]
    c = CLAIMS.get(pid)
    if not c or c.get("not_applicable"):
        na.append({"property_id": pid, "reason": (c or {}).get("not_applicable", "no check built yet in this round")})
        continue
    checks.append({
        "property_id": pid,
        "quick_cmd": f"bin/check {pid} --tier quick",
        "thorough_cmd": f"bin/check {pid} --tier thorough",
        "evidence_file": f"evidence/{pid}.json",
        "replay_cmd_template": f"bin/check {pid} --replay {{path}}",
        "engine": c.get("engine", "pyvc+monitors"),
        "level_claimed": {"category": c["category"], "text": c["text"], "design_ref": c.get("design_ref", f"DESIGN.md section 4 {pid}")},
        "level_note": c["note"],
        "technique": c["technique"],
    })
m = {
    "version": 1,
    "setup_cmd": "bin/setup",
    "hooks": {
        "guard": "PARGLARE_VERIF",
        "enable": "no hooks are compiled in: every observation point is reached by patching module globals / methods from the harness process; the guard name is reserved only",
        "baseline_off_cmd": "cd /repo && /venv/bin/python -m pytest -ra -q -p no:cacheprovider --timeout=900 --continue-on-collection-errors",
        "source_commits": [],
        "add_only": True,
    },
    "engines": [
        {"name": "pyvc", "path": "vlib/pyvc", "serves_properties": sorted(k for k, v in CLAIMS.items() if v.get("pyvc")),
         "kind_free_text": "verification-condition generator over the ast of the real /repo sources (re-read every run), sidecar contracts in contracts/, discharged by z3 5.1 / cvc5 / z3 4.8"},
        {"name": "monitors", "path": "vlib/monitors", "serves_properties": sorted(k for k, v in CLAIMS.items() if not v.get("not_applicable")),
         "kind_free_text": "bounded stand-in: the contract of a whole-API function (the property statement over spec functions in vlib/spec) executed as a run-time monitor on the real code over an exhaustive deterministic small scope; never counted as proved"},
    ],
    "checks": checks,
    "not_applicable": na,
    "notes": "Exit codes: 0 held (KNOWN-FINDING lines for listed findings), 1 VIOLATION, 2 undecided, 3 checker error. Known findings: known_findings.json. See DESIGN.md.",
}
json.dump(m, open(os.path.join(ROOT, "MANIFEST.json"), "w"), indent=1)
print(len(checks), "checks;", len(na), "not claimed")
