#!/bin/bash
# usage: tools/confirm_seed.sh <PID> <X>   (hand tool) -- confirms a candidate seeded change in a scratch
# worktree of /repo HEAD: patch applies, demo fails with it and passes without, test suite unchanged.
PID=$1; X=$2; SRC=/tmp/seed_out/$PID/$X; W=/tmp/sw_${PID}_$X; OUT=/tmp/seed_confirm/${PID}_$X.txt
mkdir -p /tmp/seed_confirm; rm -f $OUT
[ -f $SRC/patch.diff ] || { echo "$PID/$X: no patch" > $OUT; exit 0; }
git -C /repo worktree add --detach $W HEAD -q 2>/dev/null || { echo "$PID/$X: worktree failed" > $OUT; exit 0; }
cd $W
cp $SRC/demo.py $W/_demo.py
timeout 300 /venv/bin/python _demo.py > /tmp/seed_confirm/${PID}_$X.clean.out 2>&1; CLEAN=$?
if git apply $SRC/patch.diff 2>/dev/null || patch -p1 -s --no-backup-if-mismatch < $SRC/patch.diff >/dev/null 2>&1; then APPLY=ok; else APPLY=FAIL; fi
timeout 300 /venv/bin/python _demo.py > /tmp/seed_confirm/${PID}_$X.mut.out 2>&1; MUT=$?
git clean -Xfdq
SUITE=$(timeout 900 /venv/bin/python -m pytest -q -p no:cacheprovider --timeout=900 -q tests 2>&1 | grep "^FAILED\|^ERROR" | sed 's/ - .*//' | tr '\n' ' ')
git diff -- parglare > /tmp/seed_confirm/${PID}_$X.rebased.diff
echo "$PID/$X apply=$APPLY demo_clean_exit=$CLEAN demo_mutated_exit=$MUT suite='$SUITE'" > $OUT
cd /; git -C /repo worktree remove --force $W
