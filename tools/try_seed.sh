#!/bin/bash
# usage: tools/try_seed.sh <patch.diff> <demo.py|-> <PID> [more PIDs...]   (hand tool)
# applies the patch to /repo, runs the demo and the named checks, and ALWAYS reverts /repo.
P=$1; D=$2; shift; shift
cd /repo || exit 9
if ! git diff --quiet; then echo "/repo has local changes"; exit 9; fi
if ! git apply "$P" 2>/dev/null; then
  if ! patch -p1 --no-backup-if-mismatch -s < "$P"; then echo "PATCH DOES NOT APPLY"; git checkout -- .; find /repo/parglare -name "*.rej" -o -name "*.orig" | xargs -r rm -f; exit 8; fi
fi
trap 'cd /repo && git checkout -- . && find /repo/parglare -name "*.rej" -o -name "*.orig" | xargs -r rm -f; git -C /repo clean -fdXq -- tests examples 2>/dev/null' EXIT
git diff --stat | tail -1
if [ "$D" != "-" ]; then (cd /repo && timeout 120 /venv/bin/python "$D" > /tmp/demo.out 2>&1; echo "demo exit=$? : $(tail -2 /tmp/demo.out | tr '\n' ' ' | cut -c1-200)"); fi
for pid in "$@"; do
  (cd /verif && timeout 1500 bin/check $pid 2>&1 | grep -v "^KNOWN" | grep -E "VIOLATION|^\[C|by monitor|undecided|checker-error" | head -8)
done
