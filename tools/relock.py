#!/usr/bin/env python3
"""Hand tool: (re)write contracts/LOCK.json from the UNCHANGED tree.  Never run by a check."""
import os, sys
sys.path.insert(0, os.path.dirname(os.path.dirname(os.path.abspath(__file__))))
from vlib.pyvc import api
api.load_sidecars()
names = [n for n, c in api.REG.items() if n == c.name and not c.trusted and c.wired and (not sys.argv[1:] or any(a in n for a in sys.argv[1:]))]
r = api.write_lock(names)
bad = [o for o in r["obligations"] if o["status"] != "discharged"]
print(len(r["obligations"]), "obligations,", len(bad), "not discharged")
for o in bad: print("  ", o["name"], o["status"])
for k in ("undecided", "errors"):
    for x in r[k]: print(k, x[:200])
