#!/usr/bin/env python3
"""Hand tool (never run by a check): merge violation dumps (VERIF_DUMP_ALL=... bin/check ...) taken
on the UNCHANGED tree, after triage, into known_findings.json.

usage: tools/gen_known.py <PID> <cause-tag> <what-text> dump.jsonl [dump2.jsonl ...] [--monitors m1,m2]
Entries are grouped: one entry per (property, monitor, cause) with the list of exact keys."""
import json
import sys

args = [a for a in sys.argv[1:] if not a.startswith("--")]
opts = [a for a in sys.argv[1:] if a.startswith("--")]
pid, cause, what = args[0], args[1], args[2]
mons = None
for o in opts:
    if o.startswith("--monitors="):
        mons = set(o.split("=", 1)[1].split(","))
path = __file__.rsplit("/", 2)[0] + "/known_findings.json"
kf = json.load(open(path))
bym = {}
for fn in args[3:]:
    for l in open(fn):
        d = json.loads(l)
        if d["property"] != pid:
            continue
        if mons and d["monitor"] not in mons:
            continue
        bym.setdefault(d["monitor"], []).append(d["key"])
for m, keys in bym.items():
    ent = None
    for e in kf["findings"]:
        if e.get("status") == "known" and e["property"] == pid and e["monitor"] == m and e.get("cause") == cause:
            ent = e
    if ent is None:
        ent = {"status": "known", "property": pid, "monitor": m, "cause": cause, "what": what, "keys": []}
        kf["findings"].append(ent)
    have = {json.dumps(k, sort_keys=True) for k in ent["keys"]}
    for k in keys:
        s = json.dumps(k, sort_keys=True)
        if s not in have:
            have.add(s)
            ent["keys"].append(k)
    ent["keys"].sort(key=lambda k: json.dumps(k, sort_keys=True))
    print(pid, m, cause, len(ent["keys"]), "keys")
with open(path, "w") as f:
    f.write("{\n \"comment\": " + json.dumps(kf["comment"]) + ",\n \"findings\": [\n")
    rows = []
    for e in kf["findings"]:
        if "keys" in e:
            head = {k: v for k, v in e.items() if k != "keys"}
            rows.append("  " + json.dumps(head, sort_keys=True)[:-1] + ", \"keys\": [\n   " +
                        ",\n   ".join(json.dumps(k, sort_keys=True) for k in e["keys"]) + "\n  ]}")
        else:
            rows.append("  " + json.dumps(e, sort_keys=True))
    f.write(",\n".join(rows) + "\n ]\n}\n")
