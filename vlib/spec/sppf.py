"""Textbook recursions over a shared packed parse forest, written independently of parglare's
`visitor`-based implementations.  Works on the live objects but only reads the structural fields
(`possibilities`, `children`, `production`, `token`); never touches memoising properties."""


class Cyclic(Exception):
    pass


def _is_packed(n):
    # parglare's nodes proxy unknown attributes to their context, so duck typing would see a
    # `possibilities` attribute on every node: decide by class.
    from parglare.glr import Parent
    return isinstance(n, Parent)


def _is_term(n):
    from parglare.trees import NodeTerm
    return isinstance(n, NodeTerm)


def _kids(n):
    if _is_packed(n):
        return list(n.possibilities)
    if _is_term(n):
        return []
    return list(n.children)


def reachable(root):
    seen = {}
    st = [root]
    while st:
        n = st.pop()
        if id(n) in seen:
            continue
        seen[id(n)] = n
        st.extend(_kids(n))
    return list(seen.values())


def has_cycle(root):
    WHITE, GREY, BLACK = 0, 1, 2
    color = {}
    st = [(root, iter(_kids(root)))]
    color[id(root)] = GREY
    while st:
        n, it = st[-1]
        for k in it:
            c = color.get(id(k), WHITE)
            if c == GREY:
                return True
            if c == WHITE:
                color[id(k)] = GREY
                st.append((k, iter(_kids(k))))
                break
        else:
            color[id(n)] = BLACK
            st.pop()
    return False


def count_trees(root):
    """Number of trees: sum over alternatives of a packed node, product over children."""
    if has_cycle(root):
        raise Cyclic()
    memo = {}
    order = []
    st = [(root, False)]
    while st:
        n, done = st.pop()
        if id(n) in memo:
            continue
        if done:
            if _is_packed(n):
                memo[id(n)] = sum(memo[id(k)] for k in n.possibilities)
            else:
                v = 1
                for k in _kids(n):
                    v *= memo[id(k)]
                memo[id(n)] = v
            continue
        st.append((n, True))
        for k in _kids(n):
            if id(k) not in memo:
                st.append((k, False))
    return memo[id(root)]


def alt_identity(alt):
    """Identity of a packed alternative: production + the packed children it refers to (by object
    identity), or the token for a leaf."""
    if _is_term(alt):
        t = alt.token
        return ("T", t.symbol.name, t.value if isinstance(t.value, (str, int)) else repr(t.value))
    return ("N", alt.production.prod_id, tuple(id(c) for c in alt.children))


def alt_shape(alt, memo=None):
    """Structural (deep) identity of an alternative as the set of trees it denotes is too costly;
    the shallow identity above plus child-span identity is what packing is about."""
    return alt_identity(alt)


def duplicate_alternatives(root):
    """[(packed node, identity)] for packed nodes holding two identical alternatives."""
    out = []
    for n in reachable(root):
        if _is_packed(n):
            ids = [alt_identity(a) for a in n.possibilities]
            for i in set(ids):
                if ids.count(i) > 1:
                    out.append((n, i))
    return out


def ambiguous_nodes(root):
    """Number of packed nodes with more than one distinct alternative."""
    c = 0
    for n in reachable(root):
        if _is_packed(n):
            if len({alt_identity(a) for a in n.possibilities}) > 1:
                c += 1
    return c


def tree_at(root, index):
    """index-th tree by the textbook weighted enumeration: alternatives in order; inside an
    alternative children vary rightmost-fastest.  Returns nested tuples
    ('T', name, value, start, end) / ('N', prod_id, children)."""
    memo = {}

    def cnt(n):
        k = id(n)
        if k not in memo:
            if _is_packed(n):
                memo[k] = sum(cnt(a) for a in n.possibilities)
            else:
                v = 1
                for c in _kids(n):
                    v *= cnt(c)
                memo[k] = v
        return memo[k]

    def pick(n, i):
        if _is_packed(n):
            for a in n.possibilities:
                c = cnt(a)
                if i < c:
                    return pick(a, i)
                i -= c
            raise IndexError(index)
        ch = _kids(n)
        if _is_term(n):
            ctx = n.context
            return ("T", n.token.symbol.name, n.token.value, ctx.start_position, ctx.end_position)
        digits = []
        for c in reversed(ch):
            w = cnt(c)
            digits.append(i % w)
            i //= w
        digits.reverse()
        return ("N", n.production.prod_id, tuple(pick(c, d) for c, d in zip(ch, digits)))

    if has_cycle(root):
        raise Cyclic()
    if not (0 <= index < cnt(root)):
        raise IndexError(index)
    return pick(root, index)
