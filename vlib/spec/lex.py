"""The documented lexical disambiguation order (docs/disambiguation.md, 'Lexical ambiguities'):
priorities first; then string recognisers over regexes (most specific); then longest match; then
`prefer`; otherwise ambiguity (exception for LR, forking for GLR)."""


class Ambiguous(Exception):
    def __init__(self, cands):
        self.cands = cands


def choose(matches):
    """matches: list of dicts(name, prio, kind in {'str','regex'}, prefer, text).  Returns the chosen
    match, None if nothing matches, raises Ambiguous."""
    if not matches:
        return None
    top = max(m["prio"] for m in matches)
    ms = [m for m in matches if m["prio"] == top]
    strs = [m for m in ms if m["kind"] == "str"]
    if strs:
        ms = strs
    longest = max(len(m["text"]) for m in ms)
    ms = [m for m in ms if len(m["text"]) == longest]
    if len(ms) > 1:
        pref = [m for m in ms if m["prefer"]]
        if pref:
            ms = pref
    if len(ms) == 1:
        return ms[0]
    raise Ambiguous(ms)


def pursued_without_disambiguation(matches):
    """lexical disambiguation off (GLR default): every matching expected terminal of the highest
    matching priority is pursued."""
    if not matches:
        return []
    top = max(m["prio"] for m in matches)
    return [m for m in matches if m["prio"] == top]
