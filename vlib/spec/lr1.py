"""Textbook canonical LR(1) collection and LALR(1) look-aheads (by merging cores), written
independently of parglare.  Grammar = vlib.spec.cfg.CFG; the augmented production is S' -> S STOP
is represented implicitly: item production index -1."""
from vlib.spec.cfg import CFG

STOP = "STOP"


class LR1:
    def __init__(self, cfg):
        self.cfg = cfg
        self.first = cfg.first_sets()
        self.prods = list(cfg.prods)
        self.build()

    def rhs(self, p):
        return (self.cfg.start,) if p == -1 else self.prods[p][1]

    def lhs(self, p):
        return "S'" if p == -1 else self.prods[p][0]

    def first_of_seq(self, seq, la):
        out = set()
        for s in seq:
            f = self.first[s]
            out |= f - {"EMPTY"}
            if "EMPTY" not in f:
                return out
        out.add(la)
        return out

    def closure(self, items):
        items = set(items)
        todo = list(items)
        while todo:
            (p, d, la) = todo.pop()
            r = self.rhs(p)
            if d < len(r) and r[d] in self.cfg.by:
                for b in self.first_of_seq(r[d + 1:], la):
                    for (pi, _) in self.cfg.by[r[d]]:
                        it = (pi, 0, b)
                        if it not in items:
                            items.add(it)
                            todo.append(it)
        return frozenset(items)

    def build(self):
        start = self.closure({(-1, 0, STOP)})
        self.states = [start]
        self.index = {start: 0}
        self.trans = {}
        todo = [start]
        while todo:
            st = todo.pop()
            i = self.index[st]
            by_sym = {}
            for (p, d, la) in st:
                r = self.rhs(p)
                if d < len(r):
                    by_sym.setdefault(r[d], set()).add((p, d + 1, la))
            for sym, kern in by_sym.items():
                nxt = self.closure(kern)
                if nxt not in self.index:
                    self.index[nxt] = len(self.states)
                    self.states.append(nxt)
                    todo.append(nxt)
                self.trans[(i, sym)] = self.index[nxt]

    def core(self, st):
        """LR(0) kernel of a state: items with dot > 0 or the augmented item."""
        return frozenset((p, d) for (p, d, la) in st if d > 0 or p == -1)

    def actions(self, i):
        """dict terminal -> set of ('s',) | ('r', prod) | ('a',) of canonical state i"""
        acts = {}
        for (p, d, la) in self.states[i]:
            r = self.rhs(p)
            if d < len(r):
                if r[d] in self.cfg.terms:
                    acts.setdefault(r[d], set()).add(("s",))
            elif p == -1:
                acts.setdefault(STOP, set()).add(("a",))
            else:
                acts.setdefault(la, set()).add(("r", p))
        return acts

    def lalr_lookaheads(self):
        """dict core -> dict (prod, dot) -> set of look-aheads (union over canonical states of the core)."""
        out = {}
        for st in self.states:
            c = self.core(st)
            d = out.setdefault(c, {})
            for (p, dot, la) in st:
                d.setdefault((p, dot), set()).add(la)
        return out

    def lalr_actions(self):
        """dict core -> dict terminal -> set of actions of the LALR(1) automaton"""
        out = {}
        for i, st in enumerate(self.states):
            c = self.core(st)
            d = out.setdefault(c, {})
            for t, a in self.actions(i).items():
                d.setdefault(t, set()).update(a)
        return out

    def is_lalr1(self):
        return all(len(a) == 1 for d in self.lalr_actions().values() for a in d.values())

    def is_lr1(self):
        return all(len(a) == 1 for i in range(len(self.states)) for a in self.actions(i).values())
