"""Precedence climbing: the conventional operator-precedence parse (higher priority binds tighter,
equal priority groups left or right as declared).  Written from the textbook algorithm."""


def climb(tokens, table):
    """tokens: list of 'n', '(', ')', or operator names; table: op -> (priority, 'left'|'right').
    Returns nested tuples: 'n' | ('p', e) | (op, left, right).  Raises ValueError on malformed input."""
    pos = [0]

    def peek():
        return tokens[pos[0]] if pos[0] < len(tokens) else None

    def primary():
        t = peek()
        if t == "n":
            pos[0] += 1
            return "n"
        if t == "(":
            pos[0] += 1
            e = expr(0)
            if peek() != ")":
                raise ValueError("expected )")
            pos[0] += 1
            return ("p", e)
        raise ValueError(f"unexpected {t}")

    def expr(min_prio):
        lhs = primary()
        while True:
            op = peek()
            if op not in table:
                return lhs
            prio, assoc = table[op]
            if prio < min_prio:
                return lhs
            pos[0] += 1
            rhs = expr(prio + 1 if assoc == "left" else prio)
            lhs = (op, lhs, rhs)

    # priorities may be any integers: shift so that the minimum is >= 0 for the min_prio protocol
    if table:
        lo = min(p for p, _ in table.values())
        table = {k: (p - lo, a) for k, (p, a) in table.items()}
    e = expr(0)
    if pos[0] != len(tokens):
        raise ValueError("trailing tokens")
    return e
