"""Specification of grammar modularisation (docs/grammar_modularization.md): the meaning of a set of
grammar files connected by imports is the single-file grammar obtained by inlining all rules under
their qualified names (along the first import path); an override replaces a rule for every user.

Structured description of a modular grammar:
    files = {fname: {"imports": [(fname, alias)], "rules": [(name, [alt, ...])]}}
    alt   = list of symbols;  symbol = ('t', text) | ('r', 'A') | ('r', 'm1.m2.A')
    a rule whose name contains dots is an override of the imported rule it names
"""


def fq_names(files, root):
    fq = {root: ""}
    order = [root]

    def dfs(f, prefix):
        for (g, alias) in files[f]["imports"]:
            p = f"{prefix}.{alias}" if prefix else alias
            if g not in fq:
                fq[g] = p
                order.append(g)
                dfs(g, p)
    dfs(root, "")
    return fq, order


def resolve(files, fq, f, name):
    """canonical (flattened) name of symbol `name` referenced in file f"""
    if "." in name:
        alias, rest = name.split(".", 1)
        for (g, a) in files[f]["imports"]:
            if a == alias:
                return resolve(files, fq, g, rest)
        raise KeyError(f"{f}: no import {alias}")
    return f"{fq[f]}.{name}" if fq[f] else name


def flatten(files, root):
    """returns (prods, start) with canonical names; terminals are ('t', text) symbols turned into text"""
    fq, order = fq_names(files, root)
    rules = {}      # canonical name -> list of rhs
    overrides = {}
    for f in order:
        for (name, alts) in files[f]["rules"]:
            rhss = []
            for alt in alts:
                rhs = []
                for s in alt:
                    if s[0] == "t":
                        rhs.append(s[1])
                    else:
                        rhs.append(("nt", resolve(files, fq, f, s[1])))
                rhss.append(tuple(rhs))
            if "." in name:
                overrides.setdefault(resolve(files, fq, f, name), (order.index(f), rhss))
            else:
                rules[resolve(files, fq, f, name)] = rhss
    for cname, (_, rhss) in overrides.items():
        rules[cname] = rhss
    start = resolve(files, fq, root, files[root]["rules"][0][0])
    # reachable part
    prods = []
    seen = []
    todo = [start]
    while todo:
        n = todo.pop(0)
        if n in seen:
            continue
        seen.append(n)
        for rhs in rules[n]:
            out = []
            for s in rhs:
                if isinstance(s, tuple):
                    out.append(s[1])
                    todo.append(s[1])
                else:
                    out.append(s)
            prods.append((n, tuple(out)))
    return prods, start, fq


def file_text(fdesc):
    lines = []
    for (g, alias) in fdesc["imports"]:
        base = g[:-3] if g.endswith(".pg") else g
        lines.append(f"import '{g}'" + (f" as {alias}" if alias != base else "") + ";")
    for (name, alts) in fdesc["rules"]:
        parts = []
        for alt in alts:
            parts.append(" ".join((f"'{s[1]}'" if s[0] == "t" else s[1]) for s in alt) if alt else "EMPTY")
        lines.append(f"{name}: " + " | ".join(parts) + ";")
    return "\n".join(lines) + "\n"


def flat_text(prods):
    """single-file parglare grammar of the flattened productions (dots in names -> '__')"""
    by = {}
    for l, r in prods:
        by.setdefault(l, []).append(r)
    nts = set(by)
    lines = []
    for l, alts in by.items():
        parts = []
        for r in alts:
            parts.append(" ".join((s.replace(".", "__") if s in nts else f"'{s}'") for s in r) if r else "EMPTY")
        lines.append(f"{l.replace('.', '__')}: " + " | ".join(parts) + ";")
    return "\n".join(lines)
