"""Specification functions for context-free grammars (written from the textbook definitions, not
from parglare).  Pure Python, executable; used as the oracle side of run-time contracts.

A grammar is a tuple of productions (lhs, rhs) with rhs a tuple of symbol names; the first
production's lhs is the start symbol.  Which names are terminals is given by `terms` (a dict
terminal name -> matcher(text, pos) -> matched length or None).  Parsing is *scannerless*: the
derivations are taken over a token lattice on character positions:

    node i           = a character position at which layout skipping starts
    edge i -(t)-> j  = after skipping layout from i to p, terminal t matches text[p:j], j > p

so that lexical ambiguity (several terminals or lengths at one position) and layout are part of the
specification.  A sentence is a text for which the start symbol spans node 0 .. node j with
skip(j) == len(text).
"""
from functools import lru_cache
import sys

sys.setrecursionlimit(10000)


def lit(s):
    n = len(s)

    def m(text, pos, _s=s, _n=n):
        return _n if text[pos:pos + _n] == _s else None
    m.kind = "str"
    m.text = s
    return m


def lit_ic(s):
    """literal matched case-insensitively (Grammar(ignore_case=True))"""
    n = len(s)

    def m(text, pos, _s=s.lower(), _n=n):
        return _n if text[pos:pos + _n].lower() == _s else None
    m.kind = "str"
    m.text = s
    return m


def regex(pat, flags=0):
    import re
    r = re.compile(pat, flags)

    def m(text, pos):
        mm = r.match(text, pos)
        if mm and mm.end() > pos:
            return mm.end() - pos
        return None
    m.kind = "regex"
    m.text = pat
    return m


class CFG:
    def __init__(self, prods, terms, ws="\n\r\t "):
        self.prods = tuple((l, tuple(r)) for l, r in prods)
        self.start = self.prods[0][0]
        self.terms = dict(terms)
        self.ws = ws or ""
        self.nts = []
        for l, _ in self.prods:
            if l not in self.nts:
                self.nts.append(l)
        self.by = {}
        for i, (l, r) in enumerate(self.prods):
            self.by.setdefault(l, []).append((i, r))
        for l, r in self.prods:
            for s in r:
                assert s in self.by or s in self.terms, f"undefined symbol {s}"
        self.nullable = self._nullable()

    # ---- static analyses (least fixpoints) -------------------------------------------------
    def _nullable(self):
        nl = set()
        ch = True
        while ch:
            ch = False
            for l, r in self.prods:
                if l not in nl and all(s in nl for s in r):
                    nl.add(l)
                    ch = True
        return nl

    def productive(self):
        pr = set()
        ch = True
        while ch:
            ch = False
            for l, r in self.prods:
                if l not in pr and all(s in self.terms or s in pr for s in r):
                    pr.add(l)
                    ch = True
        return pr

    def reachable(self):
        re_ = {self.start}
        ch = True
        while ch:
            ch = False
            for l, r in self.prods:
                if l in re_:
                    for s in r:
                        if s in self.by and s not in re_:
                            re_.add(s)
                            ch = True
        return re_

    def is_reduced(self):
        return set(self.nts) == self.productive() == self.reachable()

    def is_cyclic(self):
        """Some nonterminal derives itself in one or more steps (A =>+ A)."""
        edges = {n: set() for n in self.nts}
        for l, r in self.prods:
            for i, s in enumerate(r):
                if s in self.by and all(x in self.nullable for x in r[:i] + r[i + 1:]):
                    edges[l].add(s)
        for n in self.nts:
            seen = set()
            st = list(edges[n])
            while st:
                x = st.pop()
                if x == n:
                    return True
                if x not in seen:
                    seen.add(x)
                    st.extend(edges[x])
        return False

    def first_sets(self):
        """Least-fixpoint FIRST over terminals, with 'EMPTY' standing for the empty string."""
        f = {t: {t} for t in self.terms}
        for n in self.nts:
            f[n] = set()
        ch = True
        while ch:
            ch = False
            for l, r in self.prods:
                add = set()
                for s in r:
                    add |= f[s] - {"EMPTY"}
                    if "EMPTY" not in f[s]:
                        break
                else:
                    add.add("EMPTY")
                if not add <= f[l]:
                    f[l] |= add
                    ch = True
        return f

    def follow_sets(self):
        f = self.first_sets()
        fo = {n: set() for n in self.nts}
        fo[self.start].add("STOP")
        ch = True
        while ch:
            ch = False
            for l, r in self.prods:
                for i, s in enumerate(r):
                    if s not in self.by:
                        continue
                    add = set()
                    for x in r[i + 1:]:
                        add |= f[x] - {"EMPTY"}
                        if "EMPTY" not in f[x]:
                            break
                    else:
                        add |= fo[l]
                    if not add <= fo[s]:
                        fo[s] |= add
                        ch = True
        return fo

    # ---- lattice ---------------------------------------------------------------------------
    def lattice(self, text):
        return Lattice(self, text)


class Lattice:
    def __init__(self, cfg, text):
        self.cfg = cfg
        self.text = text
        self.n = len(text)
        self._edges = {}
        ml = {l: 10 ** 6 for l in cfg.nts}
        ch = True
        while ch:
            ch = False
            for l, r in cfg.prods:
                v = sum((1 if s in cfg.terms else ml[s]) for s in r)
                if v < ml[l]:
                    ml[l] = v
                    ch = True
        self.ml = ml

    def skip(self, i):
        t, ws, n = self.text, self.cfg.ws, self.n
        if isinstance(t, str):
            while i < n and t[i] in ws:
                i += 1
        return i

    def edges(self, i):
        """[(terminal, token_start, token_end)] leaving node i."""
        e = self._edges.get(i)
        if e is None:
            p = self.skip(i)
            e = []
            if p < self.n:
                for t, m in self.cfg.terms.items():
                    k = m(self.text, p)
                    if k:
                        e.append((t, p, p + k))
            self._edges[i] = e
        return e

    def minlen(self, r):
        return sum((1 if s in self.cfg.terms else self.ml[s]) for s in r)

    # ---- all derivations (acyclic grammars only) ---------------------------------------------
    def derivations(self, sym=None, i=0):
        """dict j -> tuple of trees for `sym` spanning node i .. node j.
        Tree = ('T', name, start, end) | ('N', lhs, prod_index, children)."""
        assert not self.cfg.is_cyclic(), "derivation enumeration needs an acyclic grammar"
        sym = sym or self.cfg.start
        return {j: self._sym(sym, i, j) for j in range(i, self.n + 1) if self._sym(sym, i, j)}

    # (memo tables live on the instance: a function-level lru_cache would keep every lattice and all
    # of its trees alive for the life of the worker process)
    def _sym(self, s, i, j):
        memo = self.__dict__.setdefault("_memo_sym", {})
        if (s, i, j) in memo:
            return memo[(s, i, j)]
        cfg = self.cfg
        if s in cfg.terms:
            out = tuple(("T", s, p, e) for (t, p, e) in self.edges(i) if t == s and e == j)
        else:
            res = []
            for pi, r in cfg.by[s]:
                for ch in self._seq(r, i, j):
                    res.append(("N", s, pi, ch))
            out = tuple(res)
        memo[(s, i, j)] = out
        return out

    def _seq(self, r, i, j):
        memo = self.__dict__.setdefault("_memo_seq", {})
        if (r, i, j) not in memo:
            memo[(r, i, j)] = self._seq_compute(r, i, j)
        return memo[(r, i, j)]

    def _seq_compute(self, r, i, j):
        if not r:
            return ((),) if i == j else ()
        out = []
        rest_min = self.minlen(r[1:])
        for k in range(i, j + 1 - rest_min):
            first = self._sym(r[0], i, k)
            if not first:
                continue
            rest = self._seq(r[1:], k, j)
            for t in first:
                for rs in rest:
                    out.append((t,) + rs)
        return tuple(out)

    def sentence_trees(self):
        """All derivation trees of the whole text (acyclic grammars)."""
        out = []
        for j, ts in self.derivations().items():
            if self.skip(j) == self.n:
                out.extend(ts)
        return out

    def prefix_trees(self):
        """All derivation trees of sentence prefixes ending at a token boundary: dict j -> trees."""
        return self.derivations()

    # ---- recognition, viable prefixes, followers (any grammar; Earley over the lattice) -------
    def earley(self):
        """Returns dict with: accepted, accept_nodes (nodes j where start symbol spans 0..j),
        last_node (largest node with a non-empty chart reached from 0), expected (terminals that
        items at last_node wait for), stop_ok (start symbol complete at last_node)."""
        cfg = self.cfg
        n = self.n
        chart = {0: set()}
        order = [0]
        by = cfg.by
        start = cfg.start

        def add(i, item, agenda):
            c = chart.setdefault(i, set())
            if item not in c:
                c.add(item)
                if agenda is not None:
                    agenda.append(item)

        for pi, r in by[start]:
            add(0, (start, r, 0, 0), None)
        done = set()
        accept_nodes = []
        info = {}
        while True:
            pending = sorted(k for k in chart if k not in done)
            if not pending:
                break
            i = pending[0]
            done.add(i)
            agenda = list(chart[i])
            while agenda:
                (l, r, d, o) = agenda.pop()
                if d < len(r):
                    s = r[d]
                    if s in by:
                        for _, rr in by[s]:
                            add(i, (s, rr, 0, i), agenda)
                        if s in cfg.nullable:
                            add(i, (l, r, d + 1, o), agenda)
                else:
                    for (l2, r2, d2, o2) in list(chart.get(o, ())):
                        if d2 < len(r2) and r2[d2] == l:
                            add(i, (l2, r2, d2 + 1, o2), agenda)
            fin = any(l == start and d == len(r) and o == 0 for (l, r, d, o) in chart[i])
            if fin:
                accept_nodes.append(i)
            exp = {r[d] for (l, r, d, o) in chart[i] if d < len(r) and r[d] in cfg.terms}
            info[i] = (exp, fin)
            edges = self.edges(i)
            for (l, r, d, o) in chart[i]:
                if d < len(r) and r[d] in cfg.terms:
                    for (t, p, e) in edges:
                        if t == r[d]:
                            add(e, (l, r, d + 1, o), None)
        accepted = any(self.skip(j) == n for j in accept_nodes)
        last = max(info)
        return {
            "accepted": accepted,
            "accept_nodes": accept_nodes,
            "last_node": last,
            "error_position": self.skip(last),
            "expected": info[last][0],
            "stop_ok": info[last][1],
            "nodes": info,
        }

    def is_sentence(self):
        return self.earley()["accepted"]

    # ---- second formulation for cross-checks: number of derivations by counting ---------------
    def count_prefix_trees(self):
        """number of derivation trees of all sentence prefixes (what prefix_trees() would enumerate)"""
        return self._count(prefixes=True)

    def count_sentence_trees(self):
        return self._count(prefixes=False)

    def _count(self, prefixes):
        assert not self.cfg.is_cyclic()
        cfg = self.cfg

        @lru_cache(None)
        def csym(s, i, j):
            if s in cfg.terms:
                return sum(1 for (t, p, e) in self.edges(i) if t == s and e == j)
            return sum(cseq(r, i, j) for _, r in cfg.by[s])

        @lru_cache(None)
        def cseq(r, i, j):
            if not r:
                return 1 if i == j else 0
            tot = 0
            for k in range(i, j + 1 - self.minlen(r[1:])):
                a = csym(r[0], i, k)
                if a:
                    tot += a * cseq(r[1:], k, j)
            return tot

        return sum(csym(cfg.start, 0, j) for j in range(self.n + 1) if prefixes or self.skip(j) == self.n)


# ---- trees ----------------------------------------------------------------------------------
def tree_shape(t):
    """Position-free canonical form: derivation trees of one text are equal iff shapes are equal."""
    if t[0] == "T":
        return ("T", t[1], t[2], t[3])
    return ("N", t[2], tuple(tree_shape(c) for c in t[3]))


def tree_yield(t, out=None):
    out = [] if out is None else out
    if t[0] == "T":
        out.append(t)
    else:
        for c in t[3]:
            tree_yield(c, out)
    return out


def check_derivation(cfg, lattice, t, whole=True):
    """Structural validity of tree `t` (spec format) as a derivation tree over the lattice of the
    text; returns None if valid, else a reason string.  Works for cyclic grammars too."""
    if t[0] != "N" or t[1] != cfg.start:
        return "root is not the start symbol"
    pos = [0]

    def walk(x):
        if x[0] == "T":
            _, name, p, e = x
            for (tt, pp, ee) in lattice.edges(pos[0]):
                if tt == name and pp == p and ee == e:
                    pos[0] = e
                    return None
            return f"leaf {name}[{p},{e}] is not a token of the input at node {pos[0]}"
        _, lhs, pi, ch = x
        if not (0 <= pi < len(cfg.prods)):
            return f"no production {pi}"
        l, r = cfg.prods[pi]
        if l != lhs:
            return f"production {pi} is not a production of {lhs}"
        if len(ch) != len(r):
            return f"production {pi} has {len(r)} rhs symbols, node has {len(ch)} children"
        for c, s in zip(ch, r):
            cs = c[1]
            if cs != s:
                return f"child {cs} where production {pi} has {s}"
            why = walk(c)
            if why:
                return why
        return None

    why = walk(t)
    if why:
        return why
    if whole and lattice.skip(pos[0]) != lattice.n:
        return f"leaves end at {pos[0]}, input has more non-layout text"
    return None
