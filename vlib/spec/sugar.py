"""The documented plain-BNF expansion of parglare's syntactic sugar (docs/grammar_language.md,
'Syntactic sugar - BNF extensions') and the documented results of the built-in actions.

Sugared grammars are small ASTs:
    ('t', 'a')                         inline string terminal
    ('n', 'A')                         rule reference
    ('rep', elem, op, sep, greedy)     op in '?', '*', '+';  sep: None or terminal name (declared)
    ('grp', [seq, seq, ...])           parenthesised group; seq = list of elements
A grammar is a list of (lhs, [seq, ...]).
"""
from vlib.spec.cfg import CFG, lit

SEPS = {"comma": ","}


def text_elem(e):
    k = e[0]
    if k == "t":
        return f"'{e[1]}'"
    if k == "n":
        return e[1]
    if k == "rep":
        _, el, op, sep, greedy = e
        return text_elem(el) + op + ("!" if greedy else "") + (f"[{sep}]" if sep else "")
    if k == "grp":
        return "(" + " | ".join(text_seq(s) for s in e[1]) + ")"
    raise ValueError(e)


def text_seq(s):
    return " ".join(text_elem(e) for e in s) if s else "EMPTY"


def to_text(rules):
    lines = [f"{l}: " + " | ".join(text_seq(s) for s in alts) + ";" for l, alts in rules]
    seps = sorted({sp for l, alts in rules for s in alts for sp in _seps_seq(s) if sp in SEPS})
    if seps:
        lines.append("terminals")
        for sp in seps:
            lines.append(f"{sp}: '{SEPS[sp]}';")
    return "\n".join(lines)


def _seps_seq(s):
    for e in s:
        yield from _seps_elem(e)


def _seps_elem(e):
    if e[0] == "rep":
        if e[3]:
            yield e[3]
        yield from _seps_elem(e[1])
    elif e[0] == "grp":
        for s in e[1]:
            yield from _seps_seq(s)


class Expansion:
    """plain productions + what each helper non-terminal means for the result"""

    def __init__(self, rules):
        self.prods = []
        self.kind = {}      # helper nonterminal -> ('opt'|'plus'|'star'|'grp', ...)
        self.greedy = set()  # helper nonterminals created for a greedy operator
        self.names = {}
        self.terms = {}
        self.counter = 0
        self.start = rules[0][0]
        for l, alts in rules:
            for s in alts:
                self.prods.append((l, tuple(self.sym(e) for e in s)))

    def helper(self, key, kind):
        if key not in self.names:
            self.counter += 1
            nm = f"H{self.counter}"
            self.names[key] = nm
            self.kind[nm] = kind
            return nm, True
        return self.names[key], False

    def sym(self, e):
        k = e[0]
        if k == "t":
            self.terms[e[1]] = lit(e[1])
            return e[1]
        if k == "n":
            return e[1]
        if k == "grp":
            nm, new = self.helper(("grp", repr(e)), ("grp",))
            if new:
                for s in e[1]:
                    self.prods.append((nm, tuple(self.sym(x) for x in s)))
            return nm
        _, el, op, sep, greedy = e
        x = self.sym(el)
        if sep and sep in SEPS:
            self.terms[SEPS[sep]] = lit(SEPS[sep])
        # a separator is a declared terminal (SEPS) or a rule of the grammar (dropped from the result by position,
        # whatever it evaluates to)
        sepsym = (SEPS[sep] if sep in SEPS else sep) if sep else None
        if op == "?":
            nm, new = self.helper(("opt", x, greedy), ("opt",))
            if new:
                self.prods.append((nm, (x,)))
                self.prods.append((nm, ()))
        else:
            one, new1 = self.helper(("plus", x, sepsym, greedy), ("plus", sepsym))
            if new1:
                self.prods.append((one, (one, sepsym, x) if sepsym else (one, x)))
                self.prods.append((one, (x,)))
            if greedy:
                self.greedy.add(one)
            if op == "+":
                nm = one
            else:
                nm, new0 = self.helper(("star", x, sepsym, greedy), ("star",))
                if new0:
                    self.prods.append((nm, (one,)))
                    self.prods.append((nm, ()))
        if greedy:
            self.greedy.add(nm)
        return nm

    def cfg(self):
        # order: start rule's productions first
        start = self.start
        prods = sorted(self.prods, key=lambda p: p[0] != start)
        return CFG(prods, self.terms)


def interpret(tree, exp):
    """documented result (default actions) of a derivation tree of the expanded grammar"""
    if tree[0] == "T":
        return tree[1]
    _, lhs, pi, ch = tree
    kind = exp.kind.get(lhs)
    if kind is None or kind[0] == "grp":
        sub = [interpret(c, exp) for c in ch]
        return sub[0] if len(sub) == 1 else sub
    if kind[0] == "opt":
        return interpret(ch[0], exp) if ch else None
    if kind[0] == "star":
        return interpret(ch[0], exp) if ch else []
    if kind[0] == "plus":
        if len(ch) == 1:
            return [interpret(ch[0], exp)]
        return interpret(ch[0], exp) + [interpret(ch[-1], exp)]
    raise ValueError(kind)


def greedy_measure(tree, exp):
    """consumption profile of greedy repetitions, left to right: tuple of (start, -end) per greedy
    helper node; the maximal-consumption tree is the one whose greedy nodes end latest, earliest first"""
    out = []

    def span(t):
        if t[0] == "T":
            return t[2], t[3]
        ss = [span(c) for c in t[3]]
        ss = [s for s in ss if s is not None]
        if not ss:
            return None
        return ss[0][0], ss[-1][1]

    def walk(t, outer):
        if t[0] == "T":
            return
        lhs = t[1]
        is_g = lhs in exp.greedy and not outer
        if is_g:
            sp = span(t)
            out.append(sp[1] if sp else -1)
        for c in t[3]:
            walk(c, outer or is_g)
    walk(tree, False)
    return tuple(out)
