"""Deterministic, exhaustive small scopes: grammars, inputs, and the glue between the spec-side
grammar representation and parglare objects.  VERIF_SEED never changes which cases are explored."""
import itertools
from functools import lru_cache

from vlib.spec.cfg import CFG, lit

NTS = ("S", "A", "B")
TS = ("a", "b")


def _canon_variants(prods):
    out = []
    for ntp in (("A", "B"), ("B", "A")):
        for tp in (("a", "b"), ("b", "a")):
            m = {"S": "S", "A": ntp[0], "B": ntp[1], "a": tp[0], "b": tp[1]}
            out.append(tuple(sorted((m[l], tuple(m[s] for s in r)) for l, r in prods)))
    return out


def _order(prods):
    # start symbol's productions first, then A, then B; inside a rule: by (len, text)
    return tuple(sorted(prods, key=lambda p: (NTS.index(p[0]), len(p[1]), p[1])))


def sort_key_any(p):
    return p


@lru_cache(None)
def grammars(n_prods, max_rhs, nts=NTS, ts=TS):
    """All reduced (productive + reachable) grammars with <= n_prods productions over nonterminals
    subset of nts and terminals subset of ts, right-hand sides of length <= max_rhs, one
    representative per renaming class; deterministic order."""
    syms = ts + nts
    rhss = [r for k in range(max_rhs + 1) for r in itertools.product(syms, repeat=k)]
    allp = [(l, r) for l in nts for r in rhss]
    terms = {t: lit(t) for t in ts}
    out = []
    seen = set()
    for n in range(1, n_prods + 1):
        for c in itertools.combinations(allp, n):
            if c[0][0] != "S":
                continue
            used = {p[0] for p in c}
            if any(s in nts and s not in used for p in c for s in p[1]):
                continue
            key = tuple(sorted(c))
            canon = min(_canon_variants(c))
            if key != canon or canon in seen:
                continue
            g = CFG(_order(c), terms)
            if not g.is_reduced():
                continue
            seen.add(canon)
            out.append(_order(c))
    return tuple(out)


def inputs(alphabet, max_len, min_len=0):
    for L in range(min_len, max_len + 1):
        for w in itertools.product(alphabet, repeat=L):
            yield "".join(w)


def rhs_text(r, quote=True):
    if not r:
        return "EMPTY"
    return " ".join((f"'{s}'" if s.islower() and quote else s) for s in r)


def grammar_text(prods, terminals=None):
    """parglare grammar text.  Lower-case symbols are inline string terminals unless `terminals`
    (dict name -> declaration body) is given, in which case they are referenced by name (upper-cased
    name T_<name>) and declared in the terminals section."""
    by = {}
    for l, r in prods:
        by.setdefault(l, []).append(r)
    if terminals is None:
        lines = [f"{l}: " + " | ".join(rhs_text(r) for r in alts) + ";" for l, alts in by.items()]
        return "\n".join(lines)
    lines = []
    for l, alts in by.items():
        lines.append(f"{l}: " + " | ".join(
            (" ".join((f"T_{s}" if s in terminals else s) for s in r) if r else "EMPTY") for r in alts) + ";")
    lines.append("terminals")
    for t, body in terminals.items():
        lines.append(f"T_{t}: {body};")
    return "\n".join(lines)


def prod_index_map(prods):
    """parglare numbers productions in grammar-text order, rule by rule (prod_id 0 is the augmented
    production); grammar_text groups alternatives per rule in first-appearance order."""
    by = {}
    for i, (l, r) in enumerate(prods):
        by.setdefault(l, []).append(i)
    order = [i for l in by for i in by[l]]
    return {pid + 1: i for pid, i in enumerate(order)}  # parglare prod_id -> spec production index


def node_to_spec(node, pmap, term_name=lambda n: n):
    """parglare tree node (LR NodeTerm/NodeNonTerm or GLR Tree/LazyTree proxy) -> spec tree."""
    if node.is_term():
        return ("T", term_name(node.symbol.name), node.start_position, node.end_position)
    return ("N", node.symbol.name, pmap[node.production.prod_id],
            tuple(node_to_spec(c, pmap, term_name) for c in node.children))
