"""Concrete companions of the contracts on parglare/trees.py: the same statements, checked natively
on the real functions over an exhaustive small scope of stub forests.  They are the bounded stand-in
behind every proved obligation (never counted as proved) and supply replayable failing inputs when an
obligation stops discharging."""
import itertools
from functools import reduce


class Alt:
    """terminal alternative standing for `solutions` trees"""
    def __init__(self, solutions):
        self.solutions = solutions

    def is_nonterm(self):
        return False

    def is_term(self):
        return True


class NAlt:
    """non-terminal alternative with packed children"""
    def __init__(self, children):
        self.children = children

    @property
    def solutions(self):
        return reduce(lambda x, y: x * y, (c.solutions for c in self.children), 1)

    def is_nonterm(self):
        return True

    def is_term(self):
        return False


class P:
    """packed node"""
    def __init__(self, alts):
        self.possibilities = alts

    @property
    def solutions(self):
        return sum(a.solutions for a in self.possibilities)


def psum(ws, j):
    return sum(ws[:j])


def weight_vectors(maxn=3, maxw=3):
    for n in range(1, maxn + 1):
        yield from itertools.product(range(1, maxw + 1), repeat=n)


def run():
    from parglare.trees import Forest, LazyTree, NodeNonTerm, NodeTerm, Tree
    out = {"evaluations": 0, "nontrivial": 0, "violations": [], "samples": []}

    def viol(fn, key, detail):
        out["violations"].append((f"companion.{fn}", key, detail, {"family": "companion", "module": "vlib.companions.trees", "function": "replay"}))

    # ---- Tree.__init__ / LazyTree.__init__ / _init_children: bucket search --------------------------
    for ws in weight_vectors():
        total = sum(ws)
        for counter in range(0, total + 3):
            for cls in (LazyTree, Tree):
                out["evaluations"] += 1
                root = P([Alt(w) for w in ws])
                key = {"weights": list(ws), "counter": counter, "class": cls.__name__}
                if counter >= total and len(ws) == 1:
                    continue  # outside the precondition (Forest guards this case)
                out["nontrivial"] += 1
                try:
                    t = cls(root, counter)
                except IndexError:
                    if counter < total:
                        viol("Tree.__init__", key, "IndexError for an index in range")
                    continue
                except Exception as e:  # noqa
                    viol("Tree.__init__", key, f"raised {type(e).__name__}")
                    continue
                if counter >= total:
                    viol("Tree.__init__", key, "no IndexError for counter >= sum of the alternatives' solutions")
                    continue
                j = root.possibilities.index(t.root)
                ok = psum(ws, j) <= counter < psum(ws, j + 1)
                if cls is LazyTree:
                    ok = ok and t.counter == counter - psum(ws, j)
                if not ok:
                    viol("Tree.__init__", key, {"chosen_alternative": j,
                                                "residual": getattr(t, "counter", None),
                                                "expected": "psum(j) <= counter < psum(j+1), residual = counter - psum(j)"})
    if len(out["samples"]) < 1:
        out["samples"].append({"function": "Tree.__init__", "weights": [2, 1, 3], "counter": 4})
    # ---- _enumerate_children: mixed radix, lazy memo, eager == lazy -----------------------------------
    for child_ws in itertools.product([(1,), (2,), (1, 2), (3,), (2, 2)], repeat=3):
        for nkids in (0, 1, 2, 3):
            kids = [P([Alt(w) for w in cw]) for cw in child_ws[:nkids]]
            w = [k.solutions for k in kids]
            total = reduce(lambda x, y: x * y, w, 1)
            root = P([NAlt(kids)])
            seen = set()
            for counter in range(total):
                out["evaluations"] += 1
                out["nontrivial"] += 1
                key = {"child_alternative_weights": [list(c) for c in child_ws[:nkids]], "counter": counter}
                try:
                    t = LazyTree(root, counter)
                    ch = t.children
                    ch2 = t.children
                    e = Tree(root, counter)
                except Exception as ex:  # noqa
                    viol("Tree._enumerate_children", key, f"raised {type(ex).__name__}: {ex}")
                    continue
                if ch is not ch2:
                    viol("LazyTree.__getattr__", key, "children enumerated again on the second access")
                digits = []
                for k, c in enumerate(ch):
                    cw = [a.solutions for a in kids[k].possibilities]
                    j = kids[k].possibilities.index(c.root)
                    digits.append(psum(cw, j) + c.counter)
                val = sum(d * reduce(lambda x, y: x * y, w[k + 1:], 1) for k, d in enumerate(digits))
                if len(ch) != len(kids) or any(not (0 <= d < w[k]) for k, d in enumerate(digits)) or val != counter:
                    viol("Tree._enumerate_children", key, {"digits": digits, "weights": w,
                                                           "expected": "0 <= d_k < w_k and sum d_k * prod(w[k+1:]) == counter"})
                if [x.root for x in e.children] != [x.root for x in ch]:
                    viol("Tree._enumerate_children", key, "eager and lazy trees choose different alternatives")
                seen.add(tuple(digits))
            if len(seen) != total:
                viol("Tree._enumerate_children", {"child_alternative_weights": [list(c) for c in child_ws[:nkids]]},
                     {"distinct_choice_vectors": len(seen), "indices": total})
    # ---- Forest.get_tree / get_nonlazy_tree / __getitem__ / __len__ ------------------------------------
    for ws in weight_vectors():
        total = sum(ws)
        f = Forest.__new__(Forest)
        f.result = P([Alt(w) for w in ws])
        f.parser = None
        if len(f) != total or f.solutions != total:
            viol("Forest.__len__", {"weights": list(ws)}, {"len": len(f), "expected": total})
        for idx in range(0, total + 3):
            for name, fn in (("Forest.get_tree", f.get_tree), ("Forest.get_nonlazy_tree", f.get_nonlazy_tree),
                             ("Forest.__getitem__", f.__getitem__)):
                out["evaluations"] += 1
                out["nontrivial"] += 1
                key = {"weights": list(ws), "idx": idx}
                try:
                    t = fn(idx)
                    if idx >= total:
                        viol(name, key, "no IndexError for an index >= len(forest)")
                except IndexError:
                    if idx < total:
                        viol(name, key, "IndexError for an index < len(forest)")
                except Exception as ex:  # noqa
                    viol(name, key, f"raised {type(ex).__name__}")
    # counts beyond the machine index range (Python ints are unbounded; len() is not): indexing still works
    for ws in ((2 ** 64,), (2 ** 63, 5), (1, 2 ** 70)):
        total = sum(ws)
        f = Forest.__new__(Forest)
        f.result = P([Alt(w) for w in ws])
        f.parser = None
        if f.solutions != total:
            viol("Forest.solutions", {"weights": list(ws)}, {"solutions": f.solutions, "expected": total})
        for idx in (0, 1, ws[0], total - 1, total, total + 1):
            for name, fn in (("Forest.get_tree", f.get_tree), ("Forest.get_nonlazy_tree", f.get_nonlazy_tree),
                             ("Forest.__getitem__", f.__getitem__)):
                out["evaluations"] += 1
                out["nontrivial"] += 1
                key = {"weights": list(ws), "idx": idx}
                try:
                    fn(idx)
                    if idx >= total:
                        viol(name, key, "no IndexError for an index >= forest.solutions")
                except IndexError:
                    if idx < total:
                        viol(name, key, "IndexError for an index < forest.solutions")
                except Exception as ex:  # noqa
                    viol(name, key, f"raised {type(ex).__name__}: {str(ex)[:80]}")
    # ---- NodeNonTerm.solutions / NodeTerm.solutions ----------------------------------------------------
    for ws in itertools.chain([()], weight_vectors()):
        out["evaluations"] += 1
        n = NodeNonTerm(None, [P([Alt(w)]) for w in ws], production=None)
        exp = reduce(lambda x, y: x * y, ws, 1)
        if n.solutions != exp:
            viol("NodeNonTerm.solutions", {"children_solutions": list(ws)}, {"observed": n.solutions, "expected": exp})
    if NodeTerm(None, token=None).solutions != 1:
        viol("NodeTerm.solutions", {}, "a leaf must count as one tree")
    out["covers"] = ["Tree.__init__", "LazyTree.__init__", "Tree._init_children", "LazyTree._init_children",
                     "Tree._enumerate_children", "LazyTree.__getattr__", "Forest.get_tree", "Forest.get_nonlazy_tree",
                     "Forest.__getitem__", "Forest.__len__", "Forest.solutions", "Forest._check_index",
                     "NodeNonTerm.solutions", "NodeTerm.solutions"]
    # helpers exercised only through their callers
    out["aliases"] = {"Forest._check_index": ["Forest.get_tree", "Forest.get_nonlazy_tree", "Forest.__getitem__"]}
    out["rule"] = ("companions of the trees.py contracts: stub packed nodes with 1..3 alternatives of weight 1..3, "
                   "every counter 0..total+2; up to 3 packed children with alternative weights from a fixed set, "
                   "every in-range counter; forests of 2**64 and more trees at the boundary indices; real Tree/LazyTree/Forest/NodeNonTerm code")
    return out


def replay(case, key):
    return run()
