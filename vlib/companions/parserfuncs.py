"""Concrete companions of the contracts in contracts/errors.py, recovery.py, parser_misc.py: the same
clauses checked natively on the real functions (called unbound, on stub objects where the receiver is only
read) over exhaustive small scopes.  Bounded stand-in + replayable witnesses; never counted as proved."""
import itertools
from types import SimpleNamespace as NS


def _res():
    return {"evaluations": 0, "nontrivial": 0, "violations": [], "samples": [], "covers": []}


def _viol(out, fn, key, detail, module="vlib.companions.parserfuncs", function="replay"):
    out["violations"].append((f"companion.{fn}", key, detail, {"family": "companion", "module": module, "function": function}))


def run_errors():
    from parglare.common import ErrorContext, Location, pos_to_line_col
    from parglare.exceptions import get_line_col_at_position
    out = _res()
    for L in range(0, 5):
        for t in itertools.product("a\n\r", repeat=L):
            text = "".join(t)
            for pos in range(0, L + 2):
                out["evaluations"] += 1
                out["nontrivial"] += 1 if "\n" in text else 0
                key = {"text": text, "pos": pos}
                try:
                    r = get_line_col_at_position(text, pos)
                except Exception as e:  # noqa
                    _viol(out, "exceptions.get_line_col_at_position", key, f"raised {type(e).__name__}")
                    continue
                lines = text.splitlines(keepends=True)
                if pos > L:
                    if r[0] is not None:
                        _viol(out, "exceptions.get_line_col_at_position", key, f"out of range position gives {r[:2]}")
                elif r[0] is None or r[1] is None or r[2] is None:
                    _viol(out, "exceptions.get_line_col_at_position", key, f"no line/column for a position in range: {r}")
                elif pos < L and sum(len(x) for x in lines[:r[0]]) + r[1] != pos:
                    _viol(out, "exceptions.get_line_col_at_position", key, f"line start + column != pos: {r[:2]}")
                if pos <= L:
                    line, col = pos_to_line_col(text, pos)
                    exp_line = 1 + text[:pos].count("\n")
                    start = pos - col
                    ok = (line == exp_line and 0 <= col <= pos and (start == 0 or text[start - 1] == "\n")
                          and "\n" not in text[start:pos])
                    if not ok:
                        _viol(out, "common.pos_to_line_col", key, {"observed": [line, col], "expected_line": exp_line})
                    ctx = NS(position=pos, input_str=text, file_name=None, start_position=pos, end_position=pos)
                    ec = ErrorContext(ctx)
                    if (ec.start_position, ec.end_position, ec.input_str) != (pos, pos, text):
                        _viol(out, "common.ErrorContext.__init__", key, "span is not [position, position]")
                    if Location(ec).is_eof() != (pos == L):
                        _viol(out, "common.Location.is_eof", key, {"observed": Location(ec).is_eof(), "expected": pos == L})
    # is_eof on list (non-string) inputs
    for seq in ([], [1], [1, "a"], ["a", "b", "c"]):
        for pos in range(0, len(seq) + 1):
            out["evaluations"] += 1
            ec = ErrorContext(NS(position=pos, input_str=seq, file_name=None, start_position=pos, end_position=pos))
            if Location(ec).is_eof() != (pos == len(seq)):
                _viol(out, "common.Location.is_eof", {"input (list)": [str(x) for x in seq], "pos": pos},
                      {"observed": Location(ec).is_eof(), "expected": pos == len(seq)})
    if pos_to_line_col("abc", None) != (None, None):
        _viol(out, "common.pos_to_line_col", {"position": None}, "expected (None, None)")
    out["covers"] = ["exceptions.get_line_col_at_position", "common.pos_to_line_col", "common.pos_to_line_col@str",
                     "common.ErrorContext.__init__", "common.Location.is_eof"]
    out["samples"].append({"function": "get_line_col_at_position", "text": "a\n\ra", "pos": 3})
    out["rule"] = ("companions of the error-rendering contracts: every text over {a, \\n, \\r} up to length 4 x every "
                   "position 0..len+1 on the real functions")
    return out


def run_recovery():
    from parglare.exceptions import DisambiguationError
    from parglare.parser import Parser, Token
    out = _res()
    tok = Token(NS(name="t"), "t", 0)
    for L in range(0, 5):
        for start in range(-1, L + 3):
            for where in itertools.product((0, 1, 2), repeat=L + 1):   # per position: nothing / token / ambiguity
                out["evaluations"] += 1
                out["nontrivial"] += 1
                head = NS(position=start, input_str="x" * L, token_ahead=None)
                calls = [0]

                def next_token(h, where=where):
                    calls[0] += 1
                    if calls[0] > 50:
                        raise RuntimeError("no termination")
                    w = where[h.position] if 0 <= h.position <= L else 0
                    if w == 2:
                        raise DisambiguationError(NS(), [])
                    return tok if w == 1 else None
                stub = NS(_next_token=next_token)
                key = {"input_len": L, "start": start, "token_at": [i for i, w in enumerate(where) if w == 1],
                       "ambiguity_at": [i for i, w in enumerate(where) if w == 2]}
                try:
                    r = Parser.default_error_recovery(stub, head)
                except DisambiguationError:
                    continue
                except RuntimeError:
                    _viol(out, "Parser.default_error_recovery", key, "does not terminate (more than 50 scan steps)")
                    continue
                except Exception as e:  # noqa
                    _viol(out, "Parser.default_error_recovery", key, f"raised {type(e).__name__}")
                    continue
                if r:
                    ok = start < head.position <= L and head.token_ahead is tok
                else:
                    ok = head.position >= L and head.position >= start and head.token_ahead is None
                if not ok:
                    _viol(out, "Parser.default_error_recovery", key, {"result": r, "position": head.position})
    # _next_token
    for toks in ([], [tok], [tok, tok]):
        stub = NS(_next_tokens=lambda h, toks=toks: list(toks))
        head = NS(position=1, input_str="xx", token_ahead=None, start_position=1, end_position=1, file_name=None)
        try:
            r = Parser._next_token(stub, head)
            ok = (r is None and not toks) or (r is tok and len(toks) == 1)
        except DisambiguationError:
            ok = len(toks) > 1
        if not ok or head.position != 1:
            _viol(out, "Parser._next_token", {"tokens": len(toks)}, "none -> None, one -> it, several -> DisambiguationError")
        out["evaluations"] += 1
    out["covers"] = ["Parser.default_error_recovery", "Parser._next_token"]
    out["samples"].append({"function": "default_error_recovery", "input_len": 3, "start": 4, "token_at": []})
    out["rule"] = ("companion of the recovery contracts: inputs up to length 4 x start positions -1..len+2 x every "
                   "assignment {nothing, token, ambiguity} to the scan positions, real Parser.default_error_recovery on stubs")
    return out


def run_misc():
    from parglare.exceptions import RRConflicts, SRConflicts
    from parglare.grammar import StringRecognizer
    from parglare.parser import REDUCE, SHIFT, Parser, Token
    out = _res()
    # ---- _call_dynamic_filter
    for action, marked, verdict, tok_set in itertools.product((SHIFT, REDUCE), (False, True), (False, True), (False, True)):
        log = []

        def filt(*a, verdict=verdict):
            log.append(a)
            return verdict
        ahead = object()
        ahead = NS(symbol=NS(name="ahead", dynamic=False))
        ctx = NS(token=(NS(symbol=NS(name="tok", dynamic=False)) if tok_set else None), token_ahead=ahead, production=None)
        tok0 = ctx.token
        to_state = NS(symbol=NS(dynamic=marked if action is SHIFT else False))
        prod = NS(dynamic=marked if action is REDUCE else False)
        stub = NS(dynamic_filter=filt, debug=False)
        out["evaluations"] += 1
        out["nontrivial"] += 1
        from_state = NS(state_id=1, dynamic=set(), actions={})
        key = {"action": "SHIFT" if action is SHIFT else "REDUCE", "marked": marked, "filter_verdict": verdict}
        try:
            r = Parser._call_dynamic_filter(stub, ctx, from_state, to_state, action, prod, ["s"])
        except Exception as e:  # noqa
            _viol(out, "Parser._call_dynamic_filter", key, f"raised {type(e).__name__}: {str(e)[:80]}")
            continue
        if marked:
            ok = bool(r) == verdict and len(log) == 1 and log[0] == (ctx, from_state, to_state, action, prod, ["s"])
        else:
            ok = r is True and not log
        if not ok or ctx.token is not (tok0 if tok_set else ahead):
            _viol(out, "Parser._call_dynamic_filter", key, {"result": r, "filter_calls": len(log)})
    # ---- _check_parser (real conflict objects: a conflict is dynamic through its look-ahead terminal being in
    # state.dynamic -- because the terminal is marked ('term') or a production in the conflict is ('prod'))
    from parglare.exceptions import RRConflict, SRConflict
    import contextlib, io

    class Sym:      # (hashable, as grammar symbols are)
        def __init__(self, name, dynamic):
            self.name, self.dynamic = name, dynamic

    def mk_conflict(cls, how):
        term = Sym("t", how == "term")
        state = NS(state_id=0, symbol="sym", dynamic=({term} if how else set()))
        return cls(state, term, [NS(dynamic=(how == "prod"), prod_id=1)])
    hows = (None, "term", "prod")
    for filt_set in (False, True):
        for n_sr in range(0, 3):
            for sr in itertools.product(hows, repeat=n_sr):
                for n_rr in range(0, 3):
                    for rr in itertools.product(hows, repeat=n_rr):
                        out["evaluations"] += 1
                        out["nontrivial"] += 1 if (n_sr or n_rr) else 0
                        srl = [mk_conflict(SRConflict, h) for h in sr]
                        rrl = [mk_conflict(RRConflict, h) for h in rr]
                        stub = NS(table=NS(sr_conflicts=srl, rr_conflicts=rrl),
                                  dynamic_filter=(lambda *a: True) if filt_set else None, print_debug=lambda: None)
                        exp = None
                        if srl and (not filt_set or any(h is None for h in sr)):
                            exp = "SRConflicts"
                        elif rrl and (not filt_set or any(h is None for h in rr)):
                            exp = "RRConflicts"
                        try:
                            with contextlib.redirect_stdout(io.StringIO()):
                                Parser._check_parser(stub)
                            got = None
                        except (SRConflicts, RRConflicts) as e:
                            got = type(e).__name__
                        except Exception as e:  # noqa  (the real code raised something else)
                            got = f"raised {type(e).__name__}: {str(e)[:80]}"
                        if got != exp:
                            _viol(out, "Parser._check_parser", {"filter": filt_set, "sr_conflicts_dynamic_through": list(sr),
                                                                "rr_conflicts_dynamic_through": list(rr)},
                                  {"expected": exp, "observed": got})
    # ---- _lexical_disambiguation
    stub = NS(debug=False)
    for n in range(0, 4):
        for spec in itertools.product([(1, False), (1, True), (2, False), (2, True)], repeat=n):
            out["evaluations"] += 1
            out["nontrivial"] += 1 if n > 1 else 0
            toks = [Token(NS(name=f"t{i}", prefer=p), "x" * ln, 0) for i, (ln, p) in enumerate(spec)]
            r = Parser._lexical_disambiguation(stub, list(toks))
            if n <= 1:
                ok = r == toks
            else:
                mx = max(ln for ln, _ in spec)
                longest = [t for t, (ln, _) in zip(toks, spec) if ln == mx]
                pref = [t for t in longest if t.symbol.prefer]
                ok = r == (longest if len(longest) == 1 else (pref or longest))
            if not ok:
                _viol(out, "Parser._lexical_disambiguation", {"candidates(len,prefer)": [list(s) for s in spec]},
                      {"observed": [t.symbol.name for t in r]})
    # ---- Token / StringRecognizer
    t = Token(NS(name="a"), "abc", 4)
    t2 = Token(NS(name="a"), "abc", 4, length=0)
    if (len(t), t.end_position, len(t2), t2.end_position) != (3, 7, 0, 4):
        _viol(out, "Token.__init__", {}, "length/end_position")
    for value, ic in itertools.product(("a", "ab", ".", "a+", "Ab"), (False, True)):
        rec = StringRecognizer(value, ignore_case=ic)
        for L in range(0, 4):
            for s in itertools.product("aAb.+", repeat=L):
                s = "".join(s)
                for pos in range(0, L + 1):
                    out["evaluations"] += 1
                    r = rec(s, pos)
                    seg = s[pos:pos + len(value)]
                    # what is returned is what stands in the input
                    exp = seg if (seg == value or (ic and seg.lower() == value.lower())) else None
                    if r != exp:
                        _viol(out, "StringRecognizer.__call__", {"value": value, "ignore_case": ic, "input": s, "pos": pos},
                              {"expected": exp, "observed": r})
    out["covers"] = ["Parser._call_dynamic_filter", "Parser._check_parser", "Parser._lexical_disambiguation",
                     "Token.__init__", "Token.__len__", "Token.end_position", "StringRecognizer.__call__"]
    out["samples"].append({"function": "_lexical_disambiguation", "candidates(len,prefer)": [[2, False], [2, True], [1, True]]})
    out["rule"] = ("companions of the parser_misc contracts: all combinations of action/mark/verdict for the filter call, "
                   "conflict lists up to length 2 of real SRConflict/RRConflict objects (not dynamic / dynamic through the terminal / through a production), candidate lists up to length 3 over (length, prefer), string recogniser "
                   "(ignore_case off/on) on inputs up to length 3 over mixed case")
    return out


def replay(case, key):
    out = _res()
    for f in (run_errors, run_recovery, run_misc, run_actions, run_layout, run_dyn_disambiguation, run_items, run_closure_follow, run_scanner, run_gss, run_next_tokens, run_fqn):
        r = f()
        out["violations"].extend(r["violations"])
    return out


def run_actions():
    """companions of contracts/actions.py: the real collecting actions on every list of length 0..3 over two
    distinguishable elements; result contents and NO mutation of any argument"""
    import copy
    from parglare import actions as A
    out = _res()
    elems = ["x", 0, None]          # (0 and None: falsy / missing matches)

    def lists(maxn=3):
        for n in range(maxn + 1):
            yield from (list(t) for t in itertools.product(["x", "y"], repeat=n))
    for acc in lists():
        for e in elems:
            for name, fn, nodes in (("collect_first", A.collect_first, [acc, e]),
                                    ("collect_first_sep", A.collect_first_sep, [acc, ",", e]),
                                    # (a separator rule may evaluate to None or to something falsy)
                                    ("collect_first_sep", A.collect_first_sep, [acc, None, e]),
                                    ("collect_first_sep", A.collect_first_sep, [acc, 0, e])):
                before = copy.deepcopy(nodes)
                acc_id = id(nodes[0])
                out["evaluations"] += 1
                out["nontrivial"] += 1
                r = fn(None, nodes)
                exp = before[0] + [e] if e is not None else before[0]
                key = {"nodes": before}
                if r != exp:
                    _viol(out, f"actions.{name}", key, {"result": r, "expected": exp})
                if nodes != before:
                    _viol(out, f"actions.{name}", key, {"argument_mutated_to": nodes})
                if e is not None and id(r) == acc_id:
                    _viol(out, f"actions.{name}", key, "the accumulated list was extended in place")
            for name, fn, nodes in (("collect_right_first", A.collect_right_first, [e, acc]),
                                    ("collect_right_first_sep", A.collect_right_first_sep, [e, ",", acc]),
                                    ("collect_right_first_sep", A.collect_right_first_sep, [e, None, acc])):
                before = copy.deepcopy(nodes)
                tail_id = id(nodes[-1])
                out["evaluations"] += 1
                out["nontrivial"] += 1
                r = fn(None, nodes)
                exp = [e] + before[-1]
                key = {"nodes": before}
                if r != exp:
                    _viol(out, f"actions.{name}", key, {"result": r, "expected": exp})
                if nodes != before or id(r) == tail_id:
                    _viol(out, f"actions.{name}", key, {"argument_mutated_to": nodes})
    for v in elems + [[], ["x"]]:
        out["evaluations"] += 1
        if A.pass_none(None, v) is not None or A.pass_nochange(None, v) is not v or A.pass_empty(None, v) != [] \
                or A.pass_single(None, [v, "z"]) is not v:
            _viol(out, "actions.pass_*", {"value": v}, "pass_none / pass_nochange / pass_empty / pass_single")
    if A.pass_empty(None, None) is A.pass_empty(None, None):
        _viol(out, "actions.pass_empty", {}, "the same list object is returned twice")
    out["covers"] = ["actions.pass_none", "actions.pass_nochange", "actions.pass_empty", "actions.pass_single",
                     "actions.collect_first", "actions.collect_first_sep", "actions.collect_right_first",
                     "actions.collect_right_first_sep"]
    out["rule"] = ("companions of contracts/actions.py: the real collecting actions on accumulated lists of length 0..3 "
                   "x new element in {'x', 0, None}: result contents, arguments unchanged, result not aliased")
    return out


def run_layout():
    """companion of contracts/layout.py: the real Parser._skipws on stub parsers (ws in {None, '', ' ', ' \\t'} or a
    stub LAYOUT sub-parser that stops at every possible position) x every text over {a, blank, tab} up to length 4
    x every head position"""
    from parglare.parser import Parser
    out = _res()

    class LP:
        def __init__(self, stop):
            self.stop = stop

        def parse(self, input_str, position):
            return None, self.stop(position, len(input_str))
    for L in range(0, 5):
        for t in itertools.product("a \t", repeat=L):
            text = "".join(t)
            for pos in range(0, L + 2):
                configs = [("ws=" + repr(ws), NS(layout_parser=None, ws=ws, debug=False))
                           for ws in (None, "", " ", " \t", " a", "a")]       # (ws may hold any character)
                configs += [(f"LAYOUT parser stops at +{d}", NS(layout_parser=LP(lambda p, n, d=d: min(p + d, max(n, p))),
                                                                ws=" ", debug=False)) for d in (0, 1, 2)]
                for cname, stub in configs:
                    out["evaluations"] += 1
                    head = NS(position=pos, layout_content_ahead="junk")
                    key = {"config": cname, "input": text, "position": pos}
                    try:
                        Parser._skipws(stub, head, text)
                    except Exception as e:  # noqa
                        _viol(out, "Parser._skipws", key, f"raised {type(e).__name__}: {str(e)[:80]}")
                        continue
                    new = head.position
                    ok = pos <= new and head.layout_content_ahead == text[pos:new]
                    if stub.layout_parser is None:
                        ws = stub.ws or ""
                        if ws:
                            out["nontrivial"] += 1
                            ok = ok and all(c in ws for c in text[pos:new]) and (new >= len(text) or text[new] not in ws)
                        else:
                            ok = ok and new == pos
                    else:
                        ok = ok and new == stub.layout_parser.stop(pos, len(text))
                    if not ok:
                        _viol(out, "Parser._skipws", key, {"new_position": new, "layout_content_ahead": head.layout_content_ahead})
    out["covers"] = ["Parser._skipws"]
    out["rule"] = ("companion of contracts/layout.py: real Parser._skipws, ws in {None,'',' ',' \\t'} or a stub LAYOUT "
                   "sub-parser, every text over {a, blank, tab} up to length 4 x every head position 0..len+1")
    return out


def run_dyn_disambiguation():
    """companion of the _dynamic_disambiguation contract: the real function on every list of up to 3 distinct
    actions from {SHIFT, REDUCE (rhs of length 0 and 2)} x {marked, unmarked} + ACCEPT, with a filter whose verdict
    is fixed per action: result == the actions that are unmarked or accepted, in order; the filter is consulted
    exactly for the marked ones, reductions with their production and the sub-results from the stack"""
    from parglare.parser import ACCEPT, REDUCE, SHIFT, Parser
    out = _res()

    class Stub:
        _call_dynamic_filter = Parser._call_dynamic_filter
        debug = False

    def mk(kind, marked, rlen=0):
        if kind is SHIFT:
            return NS(action=SHIFT, state=NS(symbol=NS(name="t", dynamic=marked), state_id=2), prod=None)
        if kind is REDUCE:
            return NS(action=REDUCE, state=None, prod=NS(dynamic=marked, rhs=["x"] * rlen, prod_id=3))
        return NS(action=ACCEPT, state=None, prod=None)
    protos = [(SHIFT, False, 0), (SHIFT, True, 0), (REDUCE, False, 2), (REDUCE, True, 2), (REDUCE, True, 0), (ACCEPT, False, 0)]
    stack = [NS(results="r0"), NS(results="r1"), NS(results="r2")]
    for n in range(0, 4):
        for combo in itertools.product(range(len(protos)), repeat=n):
            marked_idx = [i for i, c in enumerate(combo) if protos[c][1]]
            for verdicts in itertools.product((False, True), repeat=len(marked_idx)):
                acts = [mk(*protos[c]) for c in combo]
                verdict = {id(acts[i]): v for i, v in zip(marked_idx, verdicts)}
                calls = []

                def filt(context, from_state, to_state, action, production, subresults):
                    a = next(x for x in acts if (x.state is to_state if action is SHIFT else x.prod is production))
                    calls.append((a, action, production, subresults))
                    return verdict[id(a)]
                stub = Stub()
                stub.dynamic_filter = filt
                stub.parse_stack = stack
                ctx = NS(token=None, token_ahead=NS(symbol=NS(name="la", dynamic=False)), production=None,
                         state=NS(state_id=1, dynamic=set(), actions={}))
                out["evaluations"] += 1
                out["nontrivial"] += 1 if marked_idx else 0
                key = {"actions": [("SHIFT" if protos[c][0] is SHIFT else "REDUCE" if protos[c][0] is REDUCE else "ACCEPT",
                                    "marked" if protos[c][1] else "unmarked", protos[c][2]) for c in combo],
                       "verdicts_for_marked": list(verdicts)}
                try:
                    r = Parser._dynamic_disambiguation(stub, ctx, list(acts))
                except Exception as e:  # noqa
                    _viol(out, "Parser._dynamic_disambiguation", key, f"raised {type(e).__name__}: {str(e)[:80]}")
                    continue
                exp = [a for a in acts if id(a) not in verdict or verdict[id(a)]]
                ok = len(r) == len(exp) and all(x is y for x, y in zip(r, exp))
                ok = ok and [c[0] for c in calls] == [acts[i] for i in marked_idx]
                for a, action, production, sub in calls:
                    if a.action is REDUCE:
                        rl = len(a.prod.rhs)
                        ok = ok and production is a.prod and list(sub) == ([x.results for x in stack[-rl:]] if rl else [])
                    else:
                        ok = ok and production is None and sub is None
                if not ok:
                    _viol(out, "Parser._dynamic_disambiguation", key,
                          {"kept": [acts.index(x) for x in r], "expected": [acts.index(x) for x in exp], "filter_calls": len(calls)})
    out["covers"] = ["Parser._dynamic_disambiguation"]
    out["rule"] = ("companion of the _dynamic_disambiguation contract: every list of up to 3 actions over SHIFT/REDUCE "
                   "(marked or not, empty and non-empty right-hand side)/ACCEPT x every verdict assignment")
    return out


def run_items():
    """companion of contracts/tables_items.py: real LRItem on productions with right-hand sides of length 0..3, every
    position, follow sets of size 0..2 (and None): get_pos_inc copies the follow set (updating the copy leaves the
    original alone, and vice versa)"""
    from parglare.tables import LRItem
    out = _res()
    syms = ["t1", "t2", "t3"]
    for n in range(0, 4):
        prod = NS(rhs=syms[:n], symbol="A", prod_id=1)
        for pos in range(0, n + 1):
            for fol in (None, set(), {"x"}, {"x", "y"}):
                out["evaluations"] += 1
                key = {"rhs_len": n, "position": pos, "follow": sorted(fol) if fol is not None else None}
                it = LRItem(prod, pos, fol)
                if it.production is not prod or it.position != pos or it.follow != (fol or set()):
                    _viol(out, "LRItem.__init__", key, {"follow": sorted(it.follow)})
                if (fol is None or not fol) and LRItem(prod, pos, fol).follow is it.follow:
                    _viol(out, "LRItem.__init__", key, "two items share one default follow set")
                if it.is_at_end != (pos == n):
                    _viol(out, "LRItem.is_at_end", key, {"observed": it.is_at_end})
                if pos < n and it.symbol_at_position != syms[pos]:
                    _viol(out, "LRItem.symbol_at_position", key, {"observed": it.symbol_at_position})
                nxt = it.get_pos_inc()
                if (nxt is None) != (pos >= n):
                    _viol(out, "LRItem.get_pos_inc", key, {"result_is_None": nxt is None})
                    continue
                if nxt is None:
                    continue
                out["nontrivial"] += 1
                before = set(it.follow)
                ok = nxt.production is prod and nxt.position == pos + 1 and nxt.follow == before and nxt is not it
                nxt.follow.add("late")          # look-ahead merged into the successor later on
                ok = ok and it.follow == before
                it.follow.add("mine")
                ok = ok and "mine" not in nxt.follow
                if not ok:
                    _viol(out, "LRItem.get_pos_inc", key, {"original_follow_after_update_of_copy": sorted(it.follow),
                                                          "copy": sorted(nxt.follow)})
    out["covers"] = ["LRItem.__init__", "LRItem.get_pos_inc", "LRItem.is_at_end", "LRItem.symbol_at_position"]
    out["rule"] = ("companion of contracts/tables_items.py: real LRItem, right-hand sides of length 0..3 x every position x "
                   "follow in {None, {}, {x}, {x,y}}; the follow set of the advanced item is an independent copy")
    return out


def run_closure_follow():
    """companion of contracts/closure_follow.py: the real closure._new_item_follow on every production rest of length
    0..3 over symbols whose FIRST sets range over the subsets of {EMPTY, x, y}, item follow in {{}, {p}, {p, x}}:
    result == FIRST(beta L) computed independently; arguments unchanged; result is a new set"""
    from parglare.closure import _new_item_follow
    from parglare.grammar import EMPTY
    out = _res()
    firsts = [frozenset(c) for r in range(0, 4) for c in itertools.combinations([EMPTY, "x", "y"], r)]
    for n in range(0, 4):
        for fs in itertools.product(firsts, repeat=n):
            for fol in (set(), {"p"}, {"p", "x"}):
                syms = [f"s{i}" for i in range(n)]
                first_sets = {"B": {"b"}}
                for s_, f_ in zip(syms, fs):
                    first_sets[s_] = set(f_)
                item = NS(production=NS(rhs=["B"] + syms), position=0, follow=set(fol))
                before = {k: set(v) for k, v in first_sets.items()}
                out["evaluations"] += 1
                out["nontrivial"] += 1 if n else 0
                key = {"FIRST of the symbols after the dot": [sorted(str(x) for x in f_) for f_ in fs], "item follow": sorted(fol)}
                try:
                    r = _new_item_follow(item, first_sets)
                except Exception as e:  # noqa
                    _viol(out, "closure._new_item_follow", key, f"raised {type(e).__name__}: {str(e)[:80]}")
                    continue
                exp, nullable = set(), True
                for f_ in fs:
                    exp |= set(f_) - {EMPTY}
                    if EMPTY not in f_:
                        nullable = False
                        break
                if nullable:
                    exp |= fol
                ok = r == exp and r is not item.follow and all(r is not v for v in first_sets.values())
                ok = ok and item.follow == fol and {k: set(v) for k, v in first_sets.items()} == before
                if not ok:
                    _viol(out, "closure._new_item_follow", key, {"observed": sorted(str(x) for x in r),
                                                                "expected": sorted(str(x) for x in exp)})
    out["covers"] = ["closure._new_item_follow"]
    out["rule"] = ("companion of contracts/closure_follow.py: real _new_item_follow, rests of length 0..3 x FIRST sets over "
                   "the subsets of {EMPTY, x, y} x item follow in {{}, {p}, {p,x}}")
    return out


def run_scanner():
    """companion of contracts/scanner.py: the real Parser._token_recognition on stub states with up to 3 expected
    terminals x priorities {5, 10} (in scanner order) x match / no match x finish flags: every token is a match of an
    expected terminal at the position; no token iff nothing matches; and (bounded only) the tokens are exactly the
    matches of the highest matching priority up to the first finishing match"""
    from parglare.parser import Parser
    out = _res()
    stub = NS(debug=False)
    for n in range(0, 4):
        for prios in itertools.product((10, 5), repeat=n):
            if list(prios) != sorted(prios, reverse=True):
                continue
            for matches in itertools.product((None, "", "ab"), repeat=n):
                for flags in itertools.product((False, True), repeat=n):
                    syms = []
                    for i in range(n):
                        syms.append(NS(name=f"t{i}", prior=prios[i], recognizer=(lambda inp, pos, r=matches[i]: r)))
                    head = NS(input_str="abab", position=2, state=NS(actions={s_: [] for s_ in map(id, syms)},
                                                                     finish_flags=list(flags)))
                    # (dict keyed by the symbols themselves, in scanner order)
                    head.state.actions = _SymDict(syms)
                    out["evaluations"] += 1
                    out["nontrivial"] += 1 if sum(bool(m) for m in matches) > 1 else 0
                    key = {"priorities": list(prios), "recogniser results": list(matches), "finish_flags": list(flags)}
                    try:
                        toks = Parser._token_recognition(stub, head)
                    except Exception as e:  # noqa
                        _viol(out, "Parser._token_recognition", key, f"raised {type(e).__name__}: {str(e)[:80]}")
                        continue
                    exp = []
                    top = None
                    for i in range(n):
                        if matches[i]:
                            if top is None:
                                top = prios[i]
                            if prios[i] < top:
                                break
                            exp.append(i)
                            if flags[i]:
                                break
                    got = [syms.index(t.symbol) for t in toks]
                    ok = got == exp and all(t.value == matches[i] and t.position == 2 for t, i in zip(toks, got))
                    if not ok:
                        _viol(out, "Parser._token_recognition", key, {"tokens_of_candidates": got, "expected": exp})
    out["covers"] = ["Parser._token_recognition"]
    out["rule"] = ("companion of contracts/scanner.py: real _token_recognition, up to 3 expected terminals x priorities "
                   "{10, 5} in scanner order x recogniser results {None, '', 'ab'} x finish flags")
    return out


class _SymDict(dict):
    """an ordered mapping keyed by (unhashable) stub symbols: only iteration is used by the scanner"""
    def __init__(self, syms):
        super().__init__()
        self._syms = list(syms)

    def __iter__(self):
        return iter(self._syms)

    def __len__(self):
        return len(self._syms)


def run_gss():
    """companion of contracts/gss.py: the real GSSNode, constructed over every combination of (look-ahead present /
    absent) x (layout before / after empty or not), then for_token with the same / another / a first token: same node
    or a clone that differs in nothing but the token, with a COPY of the parent links"""
    from parglare.glr import GSSNode
    out = _res()
    state = NS(state_id=7)
    t1, t2 = NS(symbol="a", value="x"), NS(symbol="b", value="xy")
    for ahead, lc, lca, links, fr in itertools.product((None, t1), ("", " "), ("", "\n "), (0, 2), (5, 0)):
        for tok in (t1, t2):
            out["evaluations"] += 1
            n = GSSNode("f.txt", "input", state, 3, fr, {"k": 1}, ambiguity=1, token_ahead=ahead, layout_content=lc,
                        layout_content_ahead=lca, debug=False)
            key = {"token_ahead": None if ahead is None else ahead.symbol, "layout_content": lc,
                   "layout_content_ahead": lca, "links": links, "for_token": tok.symbol, "frontier": fr}
            if (n.state, n.position, n.frontier, n.input_str, n.file_name, n.token_ahead, n.layout_content,
                    n.layout_content_ahead, n.parents) != (state, 3, fr, "input", "f.txt", ahead, lc, lca, {}):
                _viol(out, "GSSNode.__init__", key, "fields / id after construction")
                continue
            for i in range(links):
                n.parents[f"4_{i}"] = object()
            before = dict(n.parents)
            r = n.for_token(tok)
            same = ahead is None or ahead is tok
            out["nontrivial"] += 0 if same else 1
            ok = r.token_ahead is tok and (r is n) == same
            ok = ok and (r.state, r.position, r.frontier, r.input_str, r.file_name, r.extra, r.layout_content,
                         r.layout_content_ahead, r.id) == (state, 3, fr, "input", "f.txt", n.extra, lc, lca, n.id)
            ok = ok and r.parents == before and n.parents == before
            if not same:
                ok = ok and r.parents is not n.parents and n.token_ahead is ahead
                r.parents["late"] = object()           # a link added to the clone later must not reach the original
                ok = ok and "late" not in n.parents
            if not ok:
                _viol(out, "GSSNode.for_token", key, {"same_node": r is n, "layout_content_ahead": r.layout_content_ahead,
                                                     "links": len(r.parents)})
    # ---- the node id is a function of (frontier, state id) and an INJECTIVE one (links are keyed by it); bounded grid
    ids = {}
    for fr, sid in itertools.product(range(0, 41), range(0, 41)):
        out["evaluations"] += 1
        a_ = GSSNode("f", "input", NS(state_id=sid), 1, fr, {}, ambiguity=1).id
        b_ = GSSNode("g", "other", NS(state_id=sid), 9, fr, None, ambiguity=2, layout_content=" ").id
        if a_ != b_:
            _viol(out, "GSSNode.__init__", {"frontier": fr, "state_id": sid}, {"id depends on more than (frontier, state id)": [a_, b_]})
        if a_ in ids and ids[a_] != (fr, sid):
            _viol(out, "GSSNode.__init__", {"frontier": fr, "state_id": sid},
                  {"same id as (frontier, state id)": list(ids[a_]), "id": a_})
        ids[a_] = (fr, sid)
    # ---- create_link / Parent.merge: a second path to the same root adds its alternatives to the existing link
    from parglare.glr import Parent
    for n_old, n_new, same_root, (lo, hi), rhs_new in itertools.product((1, 2), (1, 2), (False, True), ((1, 3), (2, 2)),
                                                                       (["x"], [])):
        out["evaluations"] += 1
        out["nontrivial"] += 1
        head = GSSNode("f", "input", state, 3, 5, {}, ambiguity=1)
        r1 = GSSNode("f", "input", NS(state_id=1), 1, 4, {}, ambiguity=1)
        r2 = r1 if same_root else GSSNode("f", "input", NS(state_id=2), 1, 4, {}, ambiguity=1)
        alts1 = [NS(context=None, tag=f"o{i}") for i in range(n_old)]
        alts2 = [NS(context=None, tag=f"n{i}") for i in range(n_new)]
        # (reduction links: spans may be empty, the production of the second link may or may not be an empty one)
        p1 = Parent(None, r1, lo, hi, possibilities=list(alts1), production=NS(rhs=[], prod_id=1))
        p2 = Parent(None, r2, lo, hi, possibilities=list(alts2), production=NS(rhs=rhs_new, prod_id=2))
        key = {"alternatives_on_first_link": n_old, "on_second": n_new, "same_root": same_root, "span": [lo, hi],
               "rhs_of_second_production": len(rhs_new)}
        c1 = head.create_link(p1)
        c2 = head.create_link(p2)
        ok = c1 is True and c2 is (not same_root) and p1.head is head and p2.head is head
        if same_root:
            ok = ok and list(head.parents) == [r1.id] and head.parents[r1.id] is p1 and \
                [a.tag for a in p1.possibilities] == [a.tag for a in alts1 + alts2] and p1._solutions is None
        else:
            ok = ok and head.parents.get(r1.id) is p1 and head.parents.get(r2.id) is p2 and \
                p1.possibilities == alts1 and p2.possibilities == alts2
        if not ok:
            _viol(out, "GSSNode.create_link", key, {"created": [c1, c2], "links": len(head.parents),
                                                    "alternatives": [a.tag for a in p1.possibilities]})
    # ---- Parent.__init__ / clone_with_root: spans (0 is a position), adopted / copied alternatives, contexts
    for start, end in ((0, None), (0, 0), (2, 0), (1, 3)):
        for n_alts, tok in ((0, None), (0, t1), (2, None), (2, t1)):
            out["evaluations"] += 1
            alts = [NS(context=None) for _ in range(n_alts)]
            given = list(alts) if n_alts else None
            root = GSSNode("f", "input", NS(state_id=1), 1, 4, {}, ambiguity=1)
            key = {"start": start, "end": end, "alternatives": n_alts, "token": tok is not None}
            try:
                p = Parent(None, root, start, end, possibilities=given, token=tok)
            except Exception as e:  # noqa
                _viol(out, "Parent.__init__", key, f"raised {type(e).__name__}: {str(e)[:80]}")
                continue
            ok = (p.root, p.head, p.start_position, p.end_position, p.token, p._solutions) == \
                (root, None, start, start if end is None else end, tok, None)
            if n_alts:
                ok = ok and p.possibilities == given and all(a.context is p for a in alts)
            else:
                ok = ok and len(p.possibilities) == (1 if tok is not None else 0)
            if not ok:
                _viol(out, "Parent.__init__", key, {"end_position": p.end_position, "alternatives": len(p.possibilities)})
                continue
            if not p.possibilities:
                continue
            root2 = GSSNode("f", "input", NS(state_id=2), 1, 4, {}, ambiguity=1)
            before = list(p.possibilities)
            c = p.clone_with_root(root2)
            ok = c is not p and c.root is root2 and (c.head, c.start_position, c.end_position, c.token) == \
                (p.head, p.start_position, p.end_position, p.token)
            ok = ok and c.possibilities == before and c.possibilities is not p.possibilities and p.possibilities == before
            c.possibilities.append("late")
            ok = ok and "late" not in p.possibilities
            if not ok:
                _viol(out, "Parent.clone_with_root", key, {"shares_list": c.possibilities is p.possibilities})
    out["aliases"] = {"Parent.merge": ["GSSNode.create_link"]}
    out["covers"] = ["GSSNode.__init__", "GSSNode.for_token", "GSSNode.create_link", "Parent.merge", "Parent.__init__",
                     "Parent.clone_with_root"]
    out["rule"] = ("companion of contracts/gss.py: real GSSNode x look-ahead {none, t1} x layout before/after {empty, not} x "
                   "{0, 2} parent links x for_token {t1, t2}")
    return out


def run_next_tokens():
    """companion of the _next_tokens contract: the real Parser._next_tokens (with the real _token_recognition) on stub
    states: STOP expected or not x consume_input x position before / at the end x one expected terminal matching or not
    (lexical disambiguation off): STOP_token is offered iff STOP is expected and (not consume_input or at the end); at
    the end nothing else is offered; the head does not move"""
    from parglare.parser import STOP, STOP_token, Parser
    out = _res()

    class Stub:
        _token_recognition = Parser._token_recognition
        _lexical_disambiguation = Parser._lexical_disambiguation
        debug = False
        custom_token_recognition = None
        lexical_disambiguation = False

    for stop_expected, consume, at_end, matches in itertools.product((False, True), (False, True), (False, True), (False, True)):
        sym = NS(name="t", prior=10, recognizer=(lambda inp, pos, r=("ab" if matches else None): r))
        syms = ([STOP] if stop_expected else []) + [sym]
        stub = Stub()
        stub.consume_input = consume
        head = NS(input_str="abab", position=4 if at_end else 2,
                  state=NS(actions=_SymDict2(syms), finish_flags=[False] * len(syms)))
        if stop_expected:
            # STOP is a real terminal with a recogniser of its own; it never matches inside the input
            pass
        out["evaluations"] += 1
        out["nontrivial"] += 1
        key = {"STOP expected": stop_expected, "consume_input": consume, "at_end": at_end, "terminal matches": matches}
        pos0 = head.position
        try:
            toks = Parser._next_tokens(stub, head)
        except Exception as e:  # noqa
            _viol(out, "Parser._next_tokens", key, f"raised {type(e).__name__}: {str(e)[:80]}")
            continue
        has_stop = any(t is STOP_token for t in toks)
        exp_stop = stop_expected and (not consume or at_end)
        others = [t for t in toks if t is not STOP_token]
        ok = has_stop == exp_stop and head.position == pos0
        ok = ok and (not at_end or not others) and (at_end or (len([t for t in others if t.symbol is sym]) == (1 if matches else 0)))
        if not ok:
            _viol(out, "Parser._next_tokens", key, {"STOP offered": has_stop, "other tokens": len(others)})
    out["covers"] = ["Parser._next_tokens", "Parser._next_tokens@plain"]
    out["rule"] = ("companion of the _next_tokens contract: STOP expected or not x consume_input x before / at the end of the "
                   "input x a matching / non-matching expected terminal, lexical disambiguation off")
    return out


class _SymDict2(dict):
    """ordered mapping keyed by symbols (real STOP and stubs): iteration and membership are what the scanner uses"""
    def __init__(self, syms):
        super().__init__()
        self._syms = list(syms)

    def __iter__(self):
        return iter(self._syms)

    def __contains__(self, x):
        return any(x is s_ for s_ in self._syms)

    def __len__(self):
        return len(self._syms)


def run_fqn():
    """companion of contracts/imports.py: real PGFileImport / GrammarSymbol objects on import chains of depth 0..4:
    the qualified name is the dotted path of module names, outermost first, followed by the symbol's name"""
    from parglare.grammar import NonTerminal, PGFileImport
    out = _res()
    # (a module name may repeat along a chain: the same alias one level down, equally named files in other directories)
    for names in (["base", "m1", "m2", "m3"], ["m", "m", "x", "m"], ["util", "sub", "util", "util"]):
        for depth in range(0, 5):
            chain = None
            path = []
            for i in range(depth):
                imp = PGFileImport(names[i], f"/x/{i}/{names[i]}.pg", NS(imported_with=chain))
                path.append(names[i])
                chain = imp
                out["evaluations"] += 1
                if imp.fqn != ".".join(path):
                    _viol(out, "PGFileImport.fqn", {"chain": list(path)}, {"observed": imp.fqn})
            sym = NonTerminal("Rule", imported_with=chain)
            out["evaluations"] += 1
            out["nontrivial"] += 1 if depth else 0
            if sym.fqn != ".".join(path + ["Rule"]):
                _viol(out, "GrammarSymbol.fqn", {"chain": list(path), "name": "Rule"}, {"observed": sym.fqn})
    out["covers"] = ["PGFileImport.fqn", "GrammarSymbol.fqn"]
    out["rule"] = ("companion of contracts/imports.py: import chains of depth 0..4 (module names distinct and repeated), a "
                   "symbol imported through each")
    return out
