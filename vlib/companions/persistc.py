"""Concrete companion of contracts/persist.py: the decoding loop of table_from_serializable is extracted mechanically
from the real source (the anchored statement the P-block verifies), compiled as a function of its free variables in the
namespace of parglare.tables.persist (+ Action), and run on every list of up to 3 action records with / without a
state id and a production id."""
import ast
import itertools
from types import SimpleNamespace as NS


def _block_function():
    from vlib.pyvc import api
    import parglare.tables.persist as pp
    from parglare.tables import Action
    api.load_sidecars()
    c = api.REG["parglare.tables.persist.table_from_serializable"]
    mod, f, fdef, owner, seg = api.locate("parglare.tables.persist.table_from_serializable")
    f2, text = api.extract_block(fdef, c, seg)
    m = ast.Module(body=[f2], type_ignores=[])
    ast.fix_missing_locations(m)
    ns = dict(vars(pp))
    ns["Action"] = Action
    exec(compile(m, f"<block of {f}>", "exec"), ns)
    return ns[f2.name]


def run():
    out = {"evaluations": 0, "nontrivial": 0, "violations": [], "samples": [], "covers": []}
    blk = _block_function()
    states = {i: NS(state_id=i) for i in (0, 3, 7)}
    grammar = NS(productions=[NS(prod_id=i) for i in range(4)])
    kinds = [("S", 3, None), ("S", 0, None), ("R", None, 2), ("R", None, 0), ("A", None, None), ("SR", 7, 1)]
    for n in range(0, 4):
        for combo in itertools.product(kinds, repeat=n):
            recs = []
            for code, (k, sid, pid) in enumerate(combo):
                r = {"action": {"S": 0, "R": 1, "A": 2, "SR": 0}[k]}
                if sid is not None:
                    r["state_id"] = sid
                if pid is not None:
                    r["prod_id"] = pid
                recs.append(r)
            acts = []
            out["evaluations"] += 1
            out["nontrivial"] += 1 if n > 1 else 0
            key = {"records": recs}
            try:
                blk(recs, states, grammar, acts, None, None)
            except Exception as e:  # noqa
                out["violations"].append(("companion.persist.table_from_serializable", key,
                                          f"raised {type(e).__name__}: {str(e)[:80]}",
                                          {"family": "companion", "module": "vlib.companions.persistc", "function": "replay"}))
                continue
            ok = len(acts) == len(recs)
            for a, r in zip(acts, recs):
                ok = ok and a.action == r["action"] and a.state is (states[r["state_id"]] if "state_id" in r else None) \
                    and a.prod is (grammar.productions[r["prod_id"]] if "prod_id" in r else None)
            if not ok:
                out["violations"].append(("companion.persist.table_from_serializable", key,
                                          {"decoded": [(a.action, getattr(a.state, "state_id", None),
                                                        getattr(a.prod, "prod_id", None)) for a in acts]},
                                          {"family": "companion", "module": "vlib.companions.persistc", "function": "replay"}))
    out["covers"] = ["persist.table_from_serializable", "tables.Action.__init__"]
    out["rule"] = ("companion of contracts/persist.py: the decoding loop extracted from the real source, every list of up to 3 "
                   "action records from {SHIFT to 3/0, REDUCE by 2/0, ACCEPT, a record with both ids}")
    return out


def replay(case, key):
    return run()
