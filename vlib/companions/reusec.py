"""Concrete companion of contracts/reuse.py: the per-parse reset blocks of GLRParser.parse and Parser.parse are extracted
mechanically from the real source (the statement runs the P-blocks verify), compiled as functions of their free
variables and run on a parser object that a previous parse left dirty."""
import ast
from types import SimpleNamespace as NS


def _block(name, modname):
    import importlib
    from vlib.pyvc import api
    api.load_sidecars()
    c = api.REG[name]
    mod, f, fdef, owner, seg = api.locate(name)
    f2, text = api.extract_block(fdef, c, seg)
    m = ast.Module(body=[f2], type_ignores=[])
    ast.fix_missing_locations(m)
    ns = dict(vars(importlib.import_module(modname)))
    exec(compile(m, f"<block of {f}>", "exec"), ns)
    return ns[f2.name]


def run():
    out = {"evaluations": 0, "nontrivial": 0, "violations": [], "samples": [], "covers": []}

    def viol(fn, key, detail):
        out["violations"].append((f"companion.{fn}", key, detail,
                                  {"family": "companion", "module": "vlib.companions.reusec", "function": "replay"}))
    glr = _block("parglare.glr.GLRParser.parse", "parglare.glr")
    shared = ["left over"]
    for dirty in (False, True):
        p = NS(debug=False)
        if dirty:
            p.file_name, p.errors, p._in_error_reporting, p._expected = "old.txt", shared, True, {"x"}
            p._tokens_ahead, p._last_shifted_heads, p._for_shifter, p._frontier = shared, shared, shared, 9
        out["evaluations"] += 1
        out["nontrivial"] += 1
        try:
            glr(p, "new.txt", None)
        except Exception as e:  # noqa
            viol("glr.GLRParser.parse", {"previous_parse_left_state": dirty}, f"raised {type(e).__name__}: {str(e)[:80]}")
            continue
        lists = [p.errors, p._tokens_ahead, p._last_shifted_heads, p._for_shifter]
        ok = p.file_name == "new.txt" and p._in_error_reporting is False and p._frontier == 0 and p._expected == set()
        ok = ok and all(x == [] and x is not shared for x in lists) and len({id(x) for x in lists}) == 4
        if not ok:
            viol("glr.GLRParser.parse", {"previous_parse_left_state": dirty},
                 {"_in_error_reporting": getattr(p, "_in_error_reporting", None), "_frontier": getattr(p, "_frontier", None)})
    lr = _block("parglare.parser.Parser.parse", "parglare.parser")
    for dirty in (False, True):
        p = NS(debug=False)
        if dirty:
            p.errors, p.in_error_recovery = shared, True
        out["evaluations"] += 1
        try:
            lr(p, None)
        except Exception as e:  # noqa
            viol("parser.Parser.parse", {"previous_parse_left_state": dirty}, f"raised {type(e).__name__}: {str(e)[:80]}")
            continue
        if not (p.errors == [] and p.errors is not shared and p.in_error_recovery is False):
            viol("parser.Parser.parse", {"previous_parse_left_state": dirty}, {"errors": len(p.errors)})
    out["covers"] = ["glr.GLRParser.parse", "parser.Parser.parse"]
    out["rule"] = ("companion of contracts/reuse.py: the reset blocks extracted from the real source, run on a clean and on a "
                   "dirty parser object")
    return out


def replay(case, key):
    return run()
