"""Concrete companion of contracts/tables_resolve.py: the conflict-resolution block of create_table is extracted
mechanically from the real source (the same anchored statement the P-block verifies, nothing dropped), compiled as a
function of its free variables in the namespace of parglare.tables, and run on every small table cell; the outcome
is compared with the documented static disambiguation rule."""
import ast
import itertools
from types import SimpleNamespace as NS


class Sym:      # hashable, as grammar symbols are
    def __init__(self, name):
        self.name = name


def _block_function():
    from vlib.pyvc import api
    import parglare.tables as pt
    api.load_sidecars()
    c = api.REG["parglare.tables.create_table"]
    mod, f, fdef, owner, seg = api.locate("parglare.tables.create_table")
    f2, text = api.extract_block(fdef, c, seg)
    m = ast.Module(body=[f2], type_ignores=[])
    ast.fix_missing_locations(m)
    ns = dict(vars(pt))
    exec(compile(m, f"<block of {f}>", "exec"), ns)
    return ns[f2.name], pt


def expected_cell(L0, new_reduce, prod, shp_of, ps, pse):
    """documented rule for one cell; returns the expected list (order: as the code appends)"""
    if L0 is None:
        return [new_reduce]
    cell = list(L0)
    shift = next((a for a in cell if a.action in (0, 2)), None)
    if shift is not None:
        sp = shp_of(shift)
        if prod.prior > sp or (prod.prior == sp and prod.assoc == 1):
            cell.remove(shift)
        elif prod.prior < sp or prod.assoc == 2:
            return list(L0)
        else:
            empty = len(prod.rhs) == 0
            if (empty and pse and not prod.nopse) or (not empty and ps and not prod.nops):
                return list(L0)
    reds = [a for a in cell if a.action == 1]
    if not reds or prod.prior == reds[0].prod.prior:
        return cell + [new_reduce]
    if prod.prior > reds[0].prod.prior:
        return [a for a in cell if a.action != 1] + [new_reduce]
    return cell


def run():
    out = {"evaluations": 0, "nontrivial": 0, "violations": [], "samples": [], "covers": []}
    blk, pt = _block_function()
    term, sym = Sym("t"), Sym("s")
    priors = (9, 10, 11)

    def viol(key, detail):
        out["violations"].append(("companion.tables.create_table", key, detail,
                                  {"family": "companion", "module": "vlib.companions.resolve", "function": "replay"}))
    cells = [None]
    for sp in priors:
        cells.append([("S", sp)])
        for rp in priors:
            cells.append([("S", sp), ("R", rp)])
            cells.append([("S", sp), ("R", rp), ("R", rp)])
    cells.append([("A", 10)])
    for rp in priors:
        cells.append([("R", rp)])
        cells.append([("R", rp), ("R", rp)])
        cells.append([("A", 10), ("R", rp)])
    for cell, pprior, assoc, empty, nops, nopse, ps, pse in itertools.product(
            cells, priors, (0, 1, 2), (False, True), (False, True), (False, True), (False, True), (False, True)):
        prod = NS(prior=pprior, assoc=assoc, rhs=[] if empty else ["x"], nops=nops, nopse=nopse, prod_id=7)
        new_reduce = pt.Action(pt.REDUCE, prod=prod)
        state = NS(symbol=sym, _max_prior_per_symbol={})
        L0 = None
        if cell is not None:
            L0 = []
            for kind, pr in cell:
                if kind == "S":
                    tgt = NS(symbol=Sym("into"), state_id=5)
                    state._max_prior_per_symbol[tgt.symbol] = pr
                    L0.append(pt.Action(pt.SHIFT, state=tgt))
                elif kind == "A":
                    L0.append(pt.Action(pt.ACCEPT))
                else:
                    L0.append(pt.Action(pt.REDUCE, prod=NS(prior=pr, assoc=0, rhs=["y"], nops=False, nopse=False, prod_id=3)))
        actions = {} if L0 is None else {term: list(L0)}
        out["evaluations"] += 1
        out["nontrivial"] += 1 if L0 else 0
        key = {"cell": cell, "prod": {"prior": pprior, "assoc": assoc, "empty": empty, "nops": nops, "nopse": nopse},
               "prefer_shifts": ps, "prefer_shifts_over_empty": pse}
        try:
            blk(actions, term, new_reduce, prod, state, ps, pse)
        except Exception as e:  # noqa
            viol(key, f"raised {type(e).__name__}: {str(e)[:80]}")
            continue
        exp = expected_cell(L0, new_reduce, prod,
                            lambda a: 10 if a.action == pt.ACCEPT else state._max_prior_per_symbol[a.state.symbol], ps, pse)
        got = actions.get(term)
        if got is None or len(got) != len(exp) or any(x is not y for x, y in zip(got, exp)):
            viol(key, {"expected": [str(a) for a in exp], "observed": None if got is None else [str(a) for a in got]})
    out["covers"] = ["tables.create_table"]
    out["rule"] = ("companion of the create_table resolution block: the block extracted from the real source, run on "
                   "every cell from {free, SHIFT, ACCEPT, REDUCE, SHIFT+REDUCE(s), REDUCE+REDUCE, ACCEPT+REDUCE} x "
                   "priorities {9,10,11} x associativity x empty/non-empty production x nops/nopse x prefer_shifts x "
                   "prefer_shifts_over_empty, against the documented rule")
    return out


def replay(case, key):
    return run()
