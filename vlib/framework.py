"""Runner framework: verdicts, evidence, known findings, replay files, parallel map.

Exit codes: 0 held (or only listed known findings fired) / 1 VIOLATION / 2 undecided / 3 checker error.
"""
import hashlib
import json
import multiprocessing as mp
import os
import sys
import time
import traceback

ROOT = os.path.dirname(os.path.dirname(os.path.abspath(__file__)))
REPO = os.environ.get("VERIF_REPO", "/repo")
KNOWN_FILE = os.path.join(ROOT, "known_findings.json")
NPROC = int(os.environ.get("VERIF_NPROC", "16"))


def canon(obj):
    return json.dumps(obj, sort_keys=True, ensure_ascii=True, separators=(",", ":"))


def load_known():
    if not os.path.exists(KNOWN_FILE):
        return []
    with open(KNOWN_FILE) as f:
        raw = json.load(f)["findings"]
    out = []
    for e in raw:
        if "keys" in e:
            for k in e["keys"]:
                d = {x: y for x, y in e.items() if x != "keys"}
                d["key"] = k
                d["what"] = f"{e['what']} [{e['monitor']} " + " ".join(
                    f"{a}={json.dumps(b)}" for a, b in sorted(k.items())) + "]"
                out.append(d)
        else:
            out.append(e)
    return out


class Violation:
    def __init__(self, monitor, key, detail, kind="bounded", solver_output=None, found_input=True,
                 case=None):
        self.case = case            # what bin/check --replay needs to re-run this case
        self.monitor = monitor      # monitor or obligation name
        self.key = key              # JSON-able dict identifying the failing case exactly
        self.detail = detail        # expected / observed, human readable (dict or str)
        self.kind = kind            # 'bounded' (monitor fired) or 'proof' (obligation refuted)
        self.solver_output = solver_output
        self.found_input = found_input

    def ident(self):
        return canon({"monitor": self.monitor, "key": self.key})


class Run:
    def __init__(self, pid, tier, seed):
        self.pid = pid
        self.tier = tier
        self.seed = seed
        self.t0 = time.time()
        self.obligations = []      # dicts: name, function, status, backend, time_s, [model]
        self.functions = []        # dicts: name, file, lines, sha256
        self.assumptions = []
        self.trusted = []
        self.evaluations = 0
        self.nontrivial = 0
        self.samples = []
        self.rules = []
        self.exhaustive = True
        self.violations = []
        self.undecided = []        # strings
        self.errors = []           # strings (checker errors)
        self.extra = {}
        self.level = "exploration"
        self.explanation = None

    # -- collection --------------------------------------------------------------------------
    def add_bounded(self, res):
        """res: dict from a monitor driver: evaluations, nontrivial, samples, violations, rule"""
        self.evaluations += res.get("evaluations", 0)
        self.nontrivial += res.get("nontrivial", 0)
        for s in res.get("samples", []):
            if len(self.samples) < 12:
                self.samples.append(s)
        if res.get("rule") and res["rule"] not in self.rules:
            self.rules.append(res["rule"])
        self.violations.extend(res.get("violations", []))
        self.undecided.extend(res.get("undecided", []))
        self.errors.extend(res.get("errors", []))
        for k, v in res.get("extra", {}).items():
            self.extra[k] = v
        if res.get("exhaustive") is False:
            self.exhaustive = False

    def add_proof(self, pres):
        """pres: result of pyvc verification of a set of functions (see vlib.pyvc.api.verify)."""
        self.obligations.extend(pres["obligations"])
        self.functions.extend(pres["functions"])
        for a in pres["assumptions"]:
            if a not in self.assumptions:
                self.assumptions.append(a)
        self.violations.extend(pres["violations"])
        self.undecided.extend(pres["undecided"])
        self.errors.extend(pres["errors"])
        if pres.get("covered_by_bounded"):
            self.extra.setdefault("obligations_unattached_decided_by_bounded_companion", []).extend(
                pres["covered_by_bounded"])

    # -- verdict -----------------------------------------------------------------------------
    def finish(self):
        known = [k for k in load_known() if k.get("property") == self.pid and k.get("status") == "known"]
        known_ids = {canon({"monitor": k["monitor"], "key": k["key"]}): k for k in known}
        new, matched = [], []
        seen = set()
        for v in self.violations:
            i = v.ident()
            if i in seen:
                continue
            seen.add(i)
            if i in known_ids:
                matched.append((v, known_ids[i]))
            else:
                new.append(v)
        new.sort(key=lambda v: 0 if v.kind == "proof" else 1)
        lines = []
        dump = os.environ.get("VERIF_DUMP_ALL")
        if dump:
            with open(dump, "w") as f:
                for v in new:
                    f.write(canon({"property": self.pid, "monitor": v.monitor, "key": v.key,
                                   "detail": v.detail}) + "\n")
        bym = {}
        for v in new:
            bym[v.monitor] = bym.get(v.monitor, 0) + 1
        if bym:
            print("new violations by monitor:", bym)
        for v, k in matched:
            lines.append(f"KNOWN-FINDING: property={self.pid} {k.get('what', v.monitor)}")
        rdir = os.path.join(ROOT, "replay", self.pid)
        for v in new[:25]:
            os.makedirs(rdir, exist_ok=True)
            h = hashlib.sha256(v.ident().encode()).hexdigest()[:16]
            path = os.path.join(rdir, f"{h}.json")
            with open(path, "w") as f:
                json.dump({"property": self.pid, "monitor": v.monitor, "kind": v.kind, "key": v.key,
                           "detail": v.detail, "solver_output": v.solver_output, "case": v.case,
                           "failing_input_found": v.found_input}, f, indent=1, sort_keys=True, default=str)
            tail = "" if v.found_input else " no-failing-input-found"
            lines.append(f"VIOLATION property={self.pid} replay={path}{tail}")
        if len(new) > 25:
            lines.append(f"... and {len(new) - 25} further violations of {self.pid} (not written)")
        discharged = sum(1 for o in self.obligations if o["status"] == "discharged")
        code = 0
        if new:
            # a violation stands on its own evidence (replayed input / refuted obligation) even when
            # another part of the checker failed; the errors are still printed and recorded
            code = 1
        elif self.errors:
            code = 3
        elif self.undecided:
            code = 2
        cov = {
            "evaluations": self.evaluations,
            "distinct_nontrivial": self.nontrivial,
            "rule": " | ".join(self.rules) if self.rules else "n/a",
            "samples": self.samples if self.samples else [o["name"] for o in self.obligations[:8]],
            "exhaustive": bool(self.exhaustive and self.evaluations > 0),
            "obligations": len(self.obligations),
            "discharged": discharged,
            "obligation_results": self.obligations,
            "functions_under_contract": self.functions,
            "checker_cmd": f"bin/check {self.pid} --tier {self.tier}",
            "trusted_base": self.trusted,
            "known_findings_matched": [k.get("what") for _, k in matched],
            "undecided": self.undecided,
            "checker_errors": self.errors,
            "solver_time_s": round(sum(o.get("time_s", 0) for o in self.obligations), 3),
        }
        if self.explanation:
            cov["explanation"] = self.explanation
        cov.update(self.extra)
        ev = {
            "property_id": self.pid,
            "tier": self.tier,
            "seed": self.seed,
            "level": self.level,
            "coverage": cov,
            "assumptions": self.assumptions,
            "wall_s": round(time.time() - self.t0, 2),
            "violations": len(new),
        }
        os.makedirs(os.path.join(ROOT, "evidence"), exist_ok=True)
        with open(os.path.join(ROOT, "evidence", f"{self.pid}.json"), "w") as f:
            json.dump(ev, f, indent=1, sort_keys=True, default=str)
        for ln in lines:
            print(ln)
        print(f"[{self.pid}] tier={self.tier} obligations={len(self.obligations)} discharged={discharged} "
              f"bounded_evaluations={self.evaluations} nontrivial={self.nontrivial} "
              f"new_violations={len(new)} known={len(matched)} undecided={len(self.undecided)} "
              f"errors={len(self.errors)} wall={ev['wall_s']}s exit={code}")
        for u in self.undecided[:10]:
            print("  undecided:", u)
        for e in self.errors[:10]:
            print("  checker-error:", e)
        return code


# ---- parallel map (deterministic result order) ----------------------------------------------
def _wrap(args):
    f, a = args
    try:
        return ("ok", f(a))
    except Exception:
        return ("err", traceback.format_exc()[-3000:])


def pmap(func, items, chunksize=None, nproc=None, fresh_process_per_item=False):
    items = list(items)
    nproc = nproc or NPROC
    if not items:
        return []
    if nproc <= 1 or len(items) == 1:
        return [_wrap((func, a)) for a in items]
    if chunksize is None:
        chunksize = max(1, min(64, len(items) // (nproc * 8) or 1))
    ctx = mp.get_context("fork")
    if fresh_process_per_item:
        with ctx.Pool(nproc, maxtasksperchild=1) as pool:
            return pool.map(_wrap, [(func, a) for a in items], chunksize=1)
    # ProcessPoolExecutor (not Pool): a worker that dies (e.g. killed for memory) breaks the pool with
    # an exception -> checker error (exit 3), where Pool.map would wait for the lost task for ever
    from concurrent.futures import ProcessPoolExecutor
    with ProcessPoolExecutor(nproc, mp_context=ctx, initializer=_limit_worker_memory) as ex:
        return list(ex.map(_wrap, [(func, a) for a in items], chunksize=chunksize))


WORKER_MEM_LIMIT = int(os.environ.get("VERIF_WORKER_MEM_GB", "3")) << 30


def _limit_worker_memory():
    """address-space limit per worker (16 x 3 GiB stays under the 62 GiB of the sandbox): exhausting
    it raises MemoryError inside the worker, reported as a checker error for that item"""
    try:
        import resource
        resource.setrlimit(resource.RLIMIT_AS, (WORKER_MEM_LIMIT, WORKER_MEM_LIMIT))
    except Exception:  # noqa
        pass


def merge_worker_results(results, rule, sample_limit=8):
    """results: list of ('ok', dict)|('err', tb) from pmap; dict has evaluations, nontrivial,
    violations (list of (monitor, key, detail)), samples."""
    out = {"evaluations": 0, "nontrivial": 0, "samples": [], "violations": [], "errors": [],
           "rule": rule, "extra": {}}
    counters = {}
    for st, r in results:
        if st == "err":
            out["errors"].append(r)
            continue
        out["evaluations"] += r.get("evaluations", 0)
        out["nontrivial"] += r.get("nontrivial", 0)
        for s in r.get("samples", []):
            if len(out["samples"]) < sample_limit:
                out["samples"].append(s)
        for vv in r.get("violations", []):
            m, k, d = vv[:3]
            out["violations"].append(Violation(m, k, d, case=vv[3] if len(vv) > 3 else None))
        for k, v in r.get("counters", {}).items():
            counters[k] = counters.get(k, 0) + v
    if counters:
        out["extra"]["counters"] = counters
    return out
