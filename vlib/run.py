"""bin/check entry point:  python -m vlib.run <PID> [--tier quick|thorough] [--replay FILE]"""
import argparse
import importlib
import os
import sys
import traceback

from vlib import framework as fw

if fw.REPO != "/repo":
    # hand runs against a scratch copy of the repository (VERIF_REPO=<dir>): the copy shadows the
    # installed package; registered commands never set it
    sys.path.insert(0, fw.REPO)


def main():
    ap = argparse.ArgumentParser()
    ap.add_argument("pid")
    ap.add_argument("--tier", default=os.environ.get("VERIF_TIER", "quick"))
    ap.add_argument("--replay")
    ap.add_argument("--only", help="P or B (debugging aid; a registered command never uses it)")
    a = ap.parse_args()
    seed = int(os.environ.get("VERIF_SEED", "0"))
    if a.replay:
        from vlib import replay
        sys.exit(replay.main(a.replay))
    run = fw.Run(a.pid, a.tier, seed)
    try:
        mod = importlib.import_module(f"vlib.props.{a.pid.lower()}")
        mod.check(run, only=a.only)
    except Exception:
        run.errors.append(traceback.format_exc()[-4000:])
    sys.exit(run.finish())


if __name__ == "__main__":
    main()
