"""bin/check <PID> --replay <file>: re-execute a replay file against the current /repo."""
import json
import sys


def main(path):
    d = json.load(open(path))
    print(f"property {d['property']}  monitor/obligation {d['monitor']}  kind {d['kind']}")
    print("recorded key   :", json.dumps(d["key"], sort_keys=True))
    print("recorded detail:", json.dumps(d["detail"], sort_keys=True, default=str))
    case = d.get("case") or {}
    fam = case.get("family")
    if d["kind"] == "proof":
        from vlib.pyvc import api
        return api.replay(d)
    if fam is None:
        print("no replay recipe recorded for this case")
        return 2
    res = run_case(case, d["key"])
    hits = [v for v in res.get("violations", []) if v[0] == d["monitor"] and v[1] == d["key"]]
    others = [v for v in res.get("violations", []) if v not in hits]
    if hits:
        print("REPRODUCED on the current tree:")
        for v in hits:
            print("  observed:", json.dumps(v[2], sort_keys=True, default=str))
        return 1
    print("not reproduced on the current tree (monitor silent on this case)")
    for v in others:
        print("  (another monitor fired on the same case:", v[0], json.dumps(v[2], default=str)[:200], ")")
    return 0


def run_case(case, key):
    fam = case["family"]
    params = dict(case.get("params") or {})
    params["only"] = key
    prods = tuple((l, tuple(r)) for l, r in case["prods"]) if case.get("prods") else None
    if fam == "glr":
        from vlib.monitors.glrmon import glr_grammar_worker
        return glr_grammar_worker((case["pid"], prods, params))
    if fam == "lr":
        from vlib.monitors.lrmon import lr_grammar_worker
        return lr_grammar_worker((case["pid"], prods, params))
    if fam == "tables":
        from vlib.monitors.tablemon import table_grammar_worker
        return table_grammar_worker((case["pid"], prods, params))
    import importlib
    mod = importlib.import_module(case["module"])
    return getattr(mod, case["function"])(case, key)
