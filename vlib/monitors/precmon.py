"""Bounded stand-in for C06: operator tables x expressions, LR and GLR against precedence climbing."""
import itertools

import parglare
from parglare import GLRParser, Grammar, Parser
from parglare.exceptions import RRConflicts, SRConflicts

from vlib.monitors.common import exc_str, outcome
from vlib.spec.prec import climb

OPS = ["+", "*", "^", "%", "&", "|"]


def op_tables(n_ops, levels):
    """All tables: assignment of n_ops operators to priority levels (surjective onto a prefix of
    `levels`), each used level with one associativity."""
    ops = OPS[:n_ops]
    for k in range(1, min(n_ops, len(levels)) + 1):
        for assign in itertools.product(range(k), repeat=n_ops):
            if set(assign) != set(range(k)):
                continue
            for assocs in itertools.product(("left", "right"), repeat=k):
                yield {op: (levels[assign[i]], assocs[assign[i]]) for i, op in enumerate(ops)}


def grammar_for(table, style, order):
    """style 'prod': every operator production carries {assoc, prio};
    style 'rule': the rule carries the meta data of the FIRST operator of `order`, the other
    productions override what differs (the compact operator-table style of the docs)."""
    ops = list(order)
    alts = []
    if style == "prod":
        for op in ops:
            p, a = table[op]
            alts.append(f"E '{op}' E {{{a}, {p}}}")
        head = "E"
    else:
        p0, a0 = table[ops[0]]
        head = f"E {{{a0}, {p0}}}"
        for op in ops:
            p, a = table[op]
            meta = []
            if a != a0:
                meta.append(a)
            if p != p0:
                meta.append(str(p))
            alts.append(f"E '{op}' E" + (f" {{{', '.join(meta)}}}" if meta else ""))
    base = ["'(' E ')'", "'n'"]
    if style == "rule":
        # the non-operator alternatives must not inherit associativity in a harmful way: they are
        # not binary, so meta data on them is irrelevant to conflicts
        pass
    if order and hash(tuple(order)) % 2:
        body = base + alts
    else:
        body = alts + base
    return f"{head}: " + " | ".join(body) + ";"


def expressions(ops, max_ops):
    """token lists: n (op n)* with up to max_ops operators, plus one parenthesised contiguous group."""
    seen = set()
    for k in range(0, max_ops + 1):
        for seq in itertools.product(ops, repeat=k):
            toks = ["n"]
            for o in seq:
                toks += [o, "n"]
            yield toks
            # parenthesise operand range [i, j]
            for i in range(0, k + 1):
                for j in range(i, k + 1):
                    if i == 0 and j == k and k > 1:
                        continue
                    t2 = []
                    for idx in range(k + 1):
                        if idx == i:
                            t2.append("(")
                        t2.append("n")
                        if idx == j:
                            t2.append(")")
                        if idx < k:
                            t2.append(seq[idx])
                    key = tuple(t2)
                    if key not in seen:
                        seen.add(key)
                        yield t2


def to_shape(node):
    ch = node.children
    if len(ch) == 1:
        return "n"
    if ch[0].is_term() and ch[0].value == "(":
        return ("p", to_shape(ch[1]))
    return (ch[1].value, to_shape(ch[0]), to_shape(ch[2]))


def prec_worker(args):
    pid, case, params = args
    table, style, order = case
    table = {k: tuple(v) for k, v in table.items()}
    res = {"evaluations": 0, "nontrivial": 0, "violations": [], "samples": [], "counters": {}}
    text = grammar_for(table, style, order)
    only = params.get("only")

    def viol(mon, inp, detail):
        res["violations"].append((mon, {"grammar": text, "input": inp}, detail,
                                  {"family": "generic", "module": "vlib.monitors.precmon", "function": "replay",
                                   "case": [table, style, list(order)], "params": {k: v for k, v in params.items() if k != "only"}}))
    try:
        g = Grammar.from_string(text)
    except Exception as e:  # noqa
        viol("prec.grammar_loads", None, exc_str(e))
        return res
    try:
        lr = Parser(g, prefer_shifts=False, prefer_shifts_over_empty=False, build_tree=True)
    except (SRConflicts, RRConflicts) as e:
        viol("prec.lr_constructs_without_conflicts", None, type(e).__name__)
        lr = None
    glr = GLRParser(g)
    for toks in expressions(list(order), params["max_ops"]):
        inp = " ".join(toks)
        if only and inp != only["input"]:
            continue
        res["evaluations"] += 1
        exp = climb(toks, table)
        if len(toks) >= 5:
            res["nontrivial"] += 1
        if lr is not None:
            st, val = outcome(lr.parse, inp)
            if st != "ok":
                viol("prec.lr_parses_to_precedence_tree", inp, {"expected": repr(exp), "observed": exc_str(val)})
            elif to_shape(val) != exp:
                viol("prec.lr_parses_to_precedence_tree", inp, {"expected": repr(exp), "observed": repr(to_shape(val))})
        st, f = outcome(glr.parse, inp)
        if st != "ok":
            viol("prec.glr_single_precedence_tree", inp, {"expected": repr(exp), "observed": exc_str(f)})
        else:
            n = len(f)
            got = to_shape(f.get_tree(0))
            if n != 1 or got != exp:
                viol("prec.glr_single_precedence_tree", inp, {"expected": repr(exp), "trees": n, "first": repr(got)})
    if len(res["samples"]) < 1:
        res["samples"].append({"grammar": text, "example_input": "n + n * n"})
    return res


def replay(case, key):
    c = case["case"]
    params = dict(case["params"])
    params["only"] = key
    return prec_worker(("C06", (c[0], c[1], tuple(c[2])), params))


# ---- second clause: priorities / associativities on an LALR(1) grammar change nothing ---------------
LALR_EXPR = """E: E '+' T{m1} | T{m2};
T: T '*' F{m3} | F{m4};
F: '(' E ')'{m5} | 'n'{m6};"""


def neutral_worker(args):
    pid, metas, params = args
    res = {"evaluations": 0, "nontrivial": 0, "violations": [], "samples": [], "counters": {}}
    plain = LALR_EXPR
    for i in range(1, 7):
        plain = plain.replace("{m%d}" % i, "")
    deco = LALR_EXPR
    for i, m in enumerate(metas, 1):
        deco = deco.replace("{m%d}" % i, (" {" + m + "}") if m else "")
    g0, g1 = Grammar.from_string(plain), Grammar.from_string(deco)
    p0 = Parser(g0, prefer_shifts=False, prefer_shifts_over_empty=False, build_tree=True)
    try:
        p1 = Parser(g1, prefer_shifts=False, prefer_shifts_over_empty=False, build_tree=True)
    except Exception as e:  # noqa
        res["violations"].append(("prec.meta_neutral_on_lalr1", {"grammar": deco}, exc_str(e),
                                  {"family": "generic", "module": "vlib.monitors.precmon", "function": "replay_neutral",
                                   "metas": list(metas), "params": params}))
        return res
    q1 = GLRParser(g1)
    toks = ["n", "+", "*", "(", ")"]
    for L in range(1, params["neutral_len"] + 1):
        for w in itertools.product(toks, repeat=L):
            inp = " ".join(w)
            res["evaluations"] += 1
            a = outcome(p0.parse, inp)
            b = outcome(p1.parse, inp)
            c = outcome(q1.parse, inp)
            if a[0] == "ok":
                res["nontrivial"] += 1
            same = a[0] == b[0] and (a[0] != "ok" or a[1].to_str() == b[1].to_str())
            if same and a[0] == "ok":
                same = c[0] == "ok" and len(c[1]) == 1 and c[1].get_tree(0).to_str() == a[1].to_str()
            elif same:
                same = c[0] != "ok"
            if not same:
                res["violations"].append(("prec.meta_neutral_on_lalr1", {"grammar": deco, "input": inp},
                                          {"plain": a[0], "decorated_lr": b[0], "decorated_glr": c[0]},
                                          {"family": "generic", "module": "vlib.monitors.precmon",
                                           "function": "replay_neutral", "metas": list(metas), "params": params}))
                break
    return res


def replay_neutral(case, key):
    return neutral_worker(("C06", tuple(case["metas"]), case["params"]))
