"""Bounded stand-in for C20: a grammar split over imported files means the flattened grammar."""
import contextlib
import io
import itertools
import os
import shutil
import tempfile

import parglare
from parglare import GLRParser, Grammar, Parser
from parglare.exceptions import RRConflicts, SRConflicts

from vlib.monitors.actmon import freeze
from vlib.monitors.common import exc_str, outcome
from vlib.spec import flatten as F
from vlib.spec import sppf
from vlib.spec.cfg import CFG, lit

t = lambda x: ("t", x)
r = lambda x: ("r", x)


def family(shape, aliasing, override):
    """four files root/m1/m2/m3; returns files dict"""
    a1, a2, a3, a3x = ("m1", "m2", "m3", "m3") if aliasing == "default" else ("p", "q", "k", "kk")
    files = {
        "m3.pg": {"imports": [], "rules": [("C", [[t("c")], [t("c"), r("C")]]), ("D", [[t("d"), r("C")]])]},
        "m2.pg": {"imports": [("m3.pg", a3)], "rules": [("B", [[t("b"), r(f"{a3}.C")], [t("b")]])]},
        "m1.pg": {"imports": [("m2.pg", a2)], "rules": [("A", [[t("a"), r(f"{a2}.B")], [r(f"{a2}.{a3}.D"), t("a")]])]},
        "root.pg": {"imports": [("m1.pg", a1)], "rules": [("S", [[r(f"{a1}.A"), t("s")], [r(f"{a1}.{a2}.B")]])]},
    }
    if shape == "diamond":
        # root also imports m2 and m3 directly (second and third path to them)
        r2, r3 = ("m2", "m3") if aliasing == "default" else ("qq", "kx")
        files["root.pg"]["imports"] += [("m2.pg", r2), ("m3.pg", r3)]
        files["root.pg"]["rules"][0][1].append([r(f"{r2}.B"), r(f"{r3}.C")])
        files["m1.pg"]["imports"].append(("m3.pg", a3x))
        files["m1.pg"]["rules"][0][1].append([r(f"{a3x}.C"), t("a")])
    elif shape == "cycle":
        back = "root" if aliasing == "default" else "rr"
        files["m3.pg"]["imports"].append(("root.pg", back))
        files["m3.pg"]["rules"][0][1].append([t("("), r(f"{back}.S"), t(")")])
    if override == "root_overrides_leaf":
        files["root.pg"]["rules"].append((f"{a1}.{a2}.{a3}.C", [[t("x")], [t("x"), t("x")]]))
    elif override == "mid_overrides_leaf":
        files["m1.pg"]["rules"].append((f"{a2}.{a3}.C", [[t("k")]]))
    elif override == "root_overrides_mid":
        files["root.pg"]["rules"].append((f"{a1}.{a2}.B", [[t("b"), t("b")], [r(f"{a1}.{a2}.{a3}.C")]]))
    return files


def default_result(tree):
    if tree[0] == "T":
        return tree[1]
    sub = [default_result(c) for c in tree[3]]
    return sub[0] if len(sub) == 1 else sub


def imp_worker(args):
    pid, case, params = args
    shape, aliasing, override = case
    res = {"evaluations": 0, "nontrivial": 0, "violations": [], "samples": [], "counters": {}}
    files = family(shape, aliasing, override)
    cfgname = f"{shape}/{aliasing}/{override}"
    only = params.get("only")

    def viol(mon, w, detail):
        res["violations"].append((mon, {"config": cfgname, "input": w}, detail,
                                  {"family": "generic", "module": "vlib.monitors.impmon", "function": "replay",
                                   "case": list(case), "params": {k: v for k, v in params.items() if k != "only"}}))
    prods, start, fq = F.flatten(files, "root.pg")
    terms = sorted({s for _, rhs in prods for s in rhs if s not in {l for l, _ in prods}})
    cfg = CFG(prods, {x: lit(x) for x in terms})
    d = tempfile.mkdtemp(prefix="verif_c20_")
    try:
        for fn, fd in files.items():
            with open(os.path.join(d, fn), "w") as fh:
                fh.write(F.file_text(fd))
        try:
            with contextlib.redirect_stdout(io.StringIO()):
                g = Grammar.from_file(os.path.join(d, "root.pg"))
                glr = GLRParser(g)
                gflat = Grammar.from_string(F.flat_text(prods))
                glr_flat = GLRParser(gflat)
        except Exception as e:  # noqa
            viol("imp.modular_grammar_loads", None, exc_str(e))
            return res
        # each file contributes its rules once; qualified names follow the first import path
        exp_names = {l for l, _ in prods}
        got_names = {n for n in g.nonterminals if n != "S'"}
        if got_names != exp_names:
            viol("imp.rules_once_under_first_path_names", None,
                 {"missing": sorted(exp_names - got_names), "unexpected": sorted(got_names - exp_names)})
        alphabet = terms
        for L in range(1, params["max_len"] + 1):
            for wt in itertools.product(alphabet, repeat=L):
                w = " ".join(wt)
                if only and w != only["input"]:
                    continue
                res["evaluations"] += 1
                lat = cfg.lattice(w)
                is_sentence = lat.earley()["accepted"]
                if is_sentence:
                    res["nontrivial"] += 1
                st, f = outcome(glr.parse, w)
                if st not in ("ok", "syntax"):
                    viol("imp.language_of_flattened_grammar", w, {"observed": exc_str(f)})
                    continue
                if (st == "ok") != is_sentence:
                    viol("imp.language_of_flattened_grammar", w, {"expected_sentence": is_sentence, "observed": st})
                    continue
                if not is_sentence:
                    continue
                expected = {repr(freeze(default_result(tr))) for tr in lat.sentence_trees()}
                n = sppf.count_trees(f.result)
                got = {repr(freeze(glr.call_actions(f.get_tree(i)))) for i in range(min(n, 30))}
                st2, f2 = outcome(glr_flat.parse, w)
                got_flat = set()
                if st2 == "ok":
                    n2 = sppf.count_trees(f2.result)
                    got_flat = {repr(freeze(glr_flat.call_actions(f2.get_tree(i)))) for i in range(min(n2, 30))}
                if got != expected or (st2 == "ok" and got != got_flat):
                    viol("imp.results_of_flattened_grammar", w, {"expected": sorted(expected)[:2], "observed": sorted(got)[:2],
                                                                  "single_file": sorted(got_flat)[:2]})
        res["samples"].append({"config": cfgname, "files": {fn: F.file_text(fd) for fn, fd in files.items()},
                               "flattened": F.flat_text(prods)})
    finally:
        shutil.rmtree(d, ignore_errors=True)
    return res


def replay(case, key):
    params = dict(case["params"])
    params["only"] = key
    return imp_worker(("C20", tuple(case["case"]), params))


def cases():
    return [(s, a, o) for s in ("chain", "diamond", "cycle") for a in ("default", "as")
            for o in ("none", "root_overrides_leaf", "mid_overrides_leaf", "root_overrides_mid")]
