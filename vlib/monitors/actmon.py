"""Bounded stand-in for C09: the three ways of running semantic actions agree with each other and
with the specification of what each action must receive (derived from the grammar text we generate,
not from parglare's own assignment bookkeeping)."""
import parglare
from parglare import GLRParser, Grammar, Parser
from parglare.exceptions import RRConflicts, SRConflicts

from vlib.monitors.common import BudgetExceeded, build, exc_str, outcome
from vlib.scope import inputs
from vlib.spec import sppf


def decorate(prods, naming, split=False):
    """grammar text with named matches.  naming: 'none' | 'first' (first rhs symbol of every
    production named with '=') | 'last_bool' (last rhs symbol named with '?=') | 'both'.
    Returns (text, names) with names[prod_index] = {name: (position, op)}."""
    by = {}
    for i, (l, r) in enumerate(prods):
        by.setdefault(l, []).append((i, r))
    names = {}
    lines = []
    tail = []
    order = []
    for l, alts in by.items():
        parts = []
        for (i, r) in alts:
            nm = {}
            syms = [(f"'{s}'" if s.islower() else s) for s in r]
            if r and naming in ("first", "both"):
                nm[f"x{i}"] = (0, "=")
                syms[0] = f"x{i}={syms[0]}"
            if r and naming in ("last_bool", "both") and (len(r) > 1 or naming == "last_bool"):
                j = len(r) - 1
                if f"x{i}" not in nm or j != 0:
                    nm[f"y{i}"] = (j, "?=")
                    syms[j] = f"y{i}?={syms[j]}" if "=" not in syms[j] else syms[j]
                    if "?=" not in syms[j]:
                        del nm[f"y{i}"]
            names[i] = nm
            parts.append(" ".join(syms) if syms else "EMPTY")
        if split and len(parts) >= 2:
            # the rule is defined in two places: its last alternative comes after all other rules
            lines.append(f"{l}: " + " | ".join(parts[:-1]) + ";")
            order.extend(i for i, _ in alts[:-1])
            tail.append((f"{l}: {parts[-1]};", alts[-1][0]))
        else:
            lines.append(f"{l}: " + " | ".join(parts) + ";")
            order.extend(i for i, _ in alts)
    for ln, i in tail:
        lines.append(ln)
        order.append(i)
    pmap = {pid + 1: i for pid, i in enumerate(order)}   # parglare prod_id (text order) -> spec production index
    return "\n".join(lines), names, pmap


def freeze(x):
    if isinstance(x, list):
        return ("L",) + tuple(freeze(i) for i in x)
    if isinstance(x, tuple):
        return tuple(freeze(i) for i in x)
    if isinstance(x, dict):
        return ("D",) + tuple(sorted((k, freeze(v)) for k, v in x.items()))
    if isinstance(x, (str, int, bool)) or x is None:
        return x
    # objects created by the default `obj` action
    d = {k: v for k, v in vars(x).items() if not k.startswith("_pg_")}
    return ("O", type(x).__name__) + tuple(sorted((k, freeze(v)) for k, v in d.items()))


def make_actions(g, prods, style):
    """style 'single': one recording function per rule; 'lists': per-alternative lists."""
    by = {}
    for i, (l, r) in enumerate(prods):
        by.setdefault(l, []).append(i)
    acts = {}
    for l, idxs in by.items():
        def mk(tag):
            def act(ctx, nodes, **kw):
                if not nodes:
                    return []   # an empty match evaluates to a falsy value that is not None
                return ["N", tag, tuple(freeze(n) for n in nodes), tuple(sorted((k, freeze(v)) for k, v in kw.items()))]
            return act
        if style == "lists":
            acts[l] = [mk(f"{l}#{k}") for k in range(len(idxs))]
        else:
            acts[l] = mk(l)
    for t in g.terminals.values():
        if t.name not in ("STOP", "EMPTY"):
            acts[t.name] = (lambda name: (lambda ctx, value: ("T", name, value)))(t.name)
    return acts


def expected_from_tree(node, pmap, prods, names, style, has_actions):
    """What the result must be, computed from the derivation tree and the generated grammar text."""
    if node.is_term():
        return ("T", node.symbol.name, node.value) if has_actions else node.value
    sub = [expected_from_tree(c, pmap, prods, names, style, has_actions) for c in node.children]
    if not has_actions:
        return sub[0] if len(sub) == 1 else sub
    pi = pmap[node.production.prod_id]
    lhs = prods[pi][0]
    alts = [i for i, (l, _) in enumerate(prods) if l == lhs]
    tag = f"{lhs}#{alts.index(pi)}" if style == "lists" else lhs
    kw = {}
    for nm, (pos, op) in names[pi].items():
        kw[nm] = freeze(sub[pos]) if op == "=" else bool(sub[pos])
    if not sub:
        return []
    return ["N", tag, tuple(freeze(s) for s in sub), tuple(sorted(kw.items()))]


def act_worker(args):
    pid, prods, params = args
    from vlib.scope import prod_index_map
    res = {"evaluations": 0, "nontrivial": 0, "violations": [], "samples": [], "counters": {}}
    only = params.get("only")
    multi = any(sum(1 for l2, _ in prods if l2 == l) >= 2 for l, _ in prods)
    for naming, split in [(n_, sp) for n_ in ("none", "first", "last_bool", "both") for sp in (False, True)]:
        if split and not multi:
            continue
        text, names, pmap = decorate(prods, naming, split)
        for style in ("noactions", "single", "lists"):
            if style == "noactions" and naming != "none":
                continue  # named matches switch on the default `obj` action: covered by the sugar/obj scope
            cfgname = f"{naming}/{style}" + ("/split" if split else "")
            if only and only.get("config") != cfgname:
                continue

            def viol(mon, inp, detail):
                res["violations"].append((mon, {"grammar": text, "config": cfgname, "input": inp}, detail,
                                          {"family": "generic", "module": "vlib.monitors.actmon", "function": "replay",
                                           "prods": prods, "params": {k: v for k, v in params.items() if k != "only"}}))
            try:
                g = Grammar.from_string(text)
            except parglare.GrammarError as e:
                if "Multiple different grammar actions" in str(e):
                    # a rule defined in two places must use named matches in both or in neither
                    res["counters"]["skipped_mixed_split_rule"] = res["counters"].get("skipped_mixed_split_rule", 0) + 1
                    continue
                viol("act.grammar_loads", None, exc_str(e))
                continue
            except Exception as e:  # noqa
                viol("act.grammar_loads", None, exc_str(e))
                continue
            has = style != "noactions"
            try:
                acts = make_actions(g, prods, style) if has else None
                p_fly = build(Parser, g, actions=acts)
                p_tree = build(Parser, g, actions=acts, build_tree=True)
                p_glr = build(GLRParser, g, actions=acts)
            except (SRConflicts, RRConflicts, BudgetExceeded):
                res["counters"]["skipped_lr_conflicts"] = res["counters"].get("skipped_lr_conflicts", 0) + 1
                continue
            except Exception as e:  # noqa
                viol("act.parsers_construct", None, exc_str(e))
                continue
            for w in inputs("ab", params["max_len"]):
                if only and w != only["input"]:
                    continue
                st, tree = outcome(p_tree.parse, w)
                if st != "ok":
                    continue
                res["evaluations"] += 1
                if len(w) >= 2:
                    res["nontrivial"] += 1
                exp = freeze(expected_from_tree(tree, pmap, prods, names, style, has))
                r1 = outcome(p_fly.parse, w)
                r2 = outcome(p_tree.call_actions, tree)
                got1 = freeze(r1[1]) if r1[0] == "ok" else exc_str(r1[1])
                got2 = freeze(r2[1]) if r2[0] == "ok" else exc_str(r2[1])
                if got1 != exp:
                    viol("act.on_the_fly_result", w, {"expected": repr(exp)[:400], "observed": repr(got1)[:400]})
                if got2 != exp:
                    viol("act.call_actions_on_tree_result", w, {"expected": repr(exp)[:400], "observed": repr(got2)[:400]})
                st, f = outcome(p_glr.parse, w)
                if st == "ok":
                    try:
                        n = sppf.count_trees(f.result)
                    except sppf.Cyclic:
                        n = None
                    if n == 1:
                        r3 = outcome(p_glr.call_actions, f[0])
                        got3 = freeze(r3[1]) if r3[0] == "ok" else exc_str(r3[1])
                        if got3 != exp:
                            viol("act.glr_call_actions_result", w, {"expected": repr(exp)[:400], "observed": repr(got3)[:400]})
            if not res["samples"]:
                res["samples"].append({"grammar": text, "config": cfgname})
    return res


def replay(case, key):
    params = dict(case["params"])
    params["only"] = key
    return act_worker(("C09", tuple((l, tuple(r)) for l, r in case["prods"]), params))


# ---- built-in actions behind + * ? and separators --------------------------------------------------------
SUGAR = [
    ("S: A+;\nA: 'a' | 'b';", lambda w: list(w) if w else None),
    ("S: A*;\nA: 'a' | 'b';", lambda w: list(w)),
    ("S: 'a' A?;\nA: 'b';", lambda w: (["a", "b"] if w == "ab" else ["a", None] if w == "a" else None)),
    ("S: 'a'+[comma];\nterminals\ncomma: ',';", lambda w: (w.split(",") if w and all(x == "a" for x in w.split(",")) else None)),
    ("S: 'a'*[comma] 'b';\nterminals\ncomma: ',';",
     lambda w: (([x for x in w[:-1].split(",") if x] , "b") if w.endswith("b") and (w == "b" or all(x == "a" for x in w[:-1].split(","))) else None)),
    ("S: A*;\nA: 'a' B*;\nB: 'b';", None),
]


def sugar_worker(args):
    pid, idx, params = args
    import itertools
    text, spec = SUGAR[idx]
    res = {"evaluations": 0, "nontrivial": 0, "violations": [], "samples": [{"grammar": text}], "counters": {}}
    g = Grammar.from_string(text)
    p = Parser(g)
    pt = Parser(g, build_tree=True)
    alphabet = "ab," if "comma" in text else "ab"
    for L in range(0, params["sugar_len"] + 1):
        for wt in itertools.product(alphabet, repeat=L):
            w = "".join(wt)
            st, val = outcome(p.parse, w)
            if st != "ok":
                continue
            res["evaluations"] += 1
            res["nontrivial"] += 1
            if spec is not None:
                exp = spec(w)
                if isinstance(exp, tuple):
                    exp = [exp[0], exp[1]]
                if exp is not None and freeze(val) != freeze(exp):
                    res["violations"].append(("act.builtin_collect_optional_results", {"grammar": text, "input": w},
                                              {"expected": repr(exp), "observed": repr(val)},
                                              {"family": "generic", "module": "vlib.monitors.actmon",
                                               "function": "replay_sugar", "idx": idx, "params": params}))
            st2, tree = outcome(pt.parse, w)
            if st2 == "ok":
                r2 = outcome(pt.call_actions, tree)
                if r2[0] != "ok" or freeze(r2[1]) != freeze(val):
                    res["violations"].append(("act.builtin_routes_agree", {"grammar": text, "input": w},
                                              {"on_the_fly": repr(val), "deferred": repr(r2[1])[:200]},
                                              {"family": "generic", "module": "vlib.monitors.actmon",
                                               "function": "replay_sugar", "idx": idx, "params": params}))
    return res


def replay_sugar(case, key):
    return sugar_worker(("C09", case["idx"], case["params"]))
