"""Child process of the C16 check: prints one JSON object {case name: digest} for the tables and
forests of the determinism scope, computed under the PYTHONHASHSEED it was started with."""
import contextlib
import hashlib
import io
import json
import os
import shutil
import sys
import tempfile


def main():
    tier = sys.argv[1]
    from parglare import GLRParser, Grammar, Parser
    from parglare.closure import LR_0, LR_1
    from parglare.tables import create_table
    from parglare.tables.persist import table_to_serializable

    from vlib import corpus
    from vlib.scope import grammar_text, grammars
    from vlib.spec import sppf
    out = {}

    def table_digest(g, **kw):
        with contextlib.redirect_stdout(io.StringIO()):
            t = create_table(g, **kw)
        s = json.dumps(table_to_serializable(t), sort_keys=True)
        # the conflict lists in the order the table presents them (conflicts[i] and the printed report are
        # part of what the property calls 'conflict reports'), S/R and R/R kept apart
        confl = [[(c.state.state_id, c.term.fqn, [p.prod_id for p in c.productions]) for c in cs]
                 for cs in (t.sr_conflicts, t.rr_conflicts)]
        return hashlib.sha256((s + repr(confl)).encode()).hexdigest()[:16]

    gs = list(grammars(3, 2))[::(6 if tier == "quick" else 1)] + corpus.classic() + corpus.rule_orders()[::3]
    if tier == "thorough":
        gs += corpus.random_grammars(1500, n_prods=(4, 5, 6))
    for prods in gs:
        text = grammar_text(prods)
        try:
            g = Grammar.from_string(text)
        except Exception as e:  # noqa
            out["load:" + text] = repr(e)
            continue
        for name, kw in (("LALR", dict(itemset_type=LR_1, prefer_shifts=False, prefer_shifts_over_empty=False)),
                         ("SLR", dict(itemset_type=LR_0, prefer_shifts=False, prefer_shifts_over_empty=False)),
                         ("LALR-ps", dict(itemset_type=LR_1, prefer_shifts=True, prefer_shifts_over_empty=True))):
            try:
                d1 = table_digest(g, **kw)
                # repeated construction in one process: the same text loaded and built a second time
                d2 = table_digest(Grammar.from_string(text), **kw)
                out[f"table/{name}:{text}"] = d1 if d1 == d2 else f"in-process-differs {d1} {d2}"
            except Exception as e:  # noqa
                out[f"table/{name}:{text}"] = "exc " + type(e).__name__
    # forests: index order of the trees
    FOREST = [
        ("S: S S | 'a' | 'b';", ["aaa", "abab", "aaaa"], {}),
        ("E: E '+' E | E '*' E | 'n';", ["n+n*n+n", "n*n+n"], {}),
        ("S: A | B | C;\nA: 'a' | 'a' A;\nB: 'a' | B 'a';\nC: 'a' C 'a' | 'a';", ["aaa", "aaaaa"], {}),
        ("S: 'a' S | 'a' | S 'a';", ["aaa", "aaaa"], {"consume_input": False}),
        ("S: T1 S | T2 S | T1 | T2 | T3;\nterminals\nT1: 'a';\nT2: /a+/;\nT3: /a*b/;", ["aaa", "aab", "aaaa"], {}),
        ("S: X Y | Y X | X;\nX: 'a' | 'a' 'a';\nY: 'a' | EMPTY;", ["aa", "aaa"], {"consume_input": False}),
    ]
    for text, ws, kw in FOREST:
        g = Grammar.from_string(text)
        p = GLRParser(g, **kw)
        for w in ws:
            try:
                f = p.parse(w)
                n = sppf.count_trees(f.result)
                trees = [f.get_tree(i).to_str() for i in range(min(n, 60))]
                out[f"forest:{text}:{w}:{sorted(kw)}"] = hashlib.sha256(repr((n, trees)).encode()).hexdigest()[:16]
            except Exception as e:  # noqa
                out[f"forest:{text}:{w}:{sorted(kw)}"] = "exc " + type(e).__name__
    # imported grammars: same local names in two modules
    d = tempfile.mkdtemp(prefix="verif_c16_")
    try:
        open(os.path.join(d, "m1.pg"), "w").write("A: 'a' SEP;\nterminals\nSEP: '->';\nEND: 'e';\n")
        open(os.path.join(d, "m2.pg"), "w").write("A: 'b' SEP;\nterminals\nSEP: '=>';\nEND: 'f';\n")
        open(os.path.join(d, "root.pg"), "w").write(
            "import 'm1.pg';\nimport 'm2.pg';\nS: X m1.SEP 'x' | X m2.SEP 'y' | X m1.END | X m2.END | m1.A | m2.A;\nX: 'a';\n")
        g = Grammar.from_file(os.path.join(d, "root.pg"))
        for name, kw in (("LALR", dict(itemset_type=LR_1, prefer_shifts=False, prefer_shifts_over_empty=False)),
                         ("SLR", dict(itemset_type=LR_0, prefer_shifts=False, prefer_shifts_over_empty=False))):
            out[f"table/{name}:imports-with-equal-local-names"] = table_digest(g, **kw)
    finally:
        shutil.rmtree(d, ignore_errors=True)
    json.dump(out, sys.stdout)


if __name__ == "__main__":
    main()
