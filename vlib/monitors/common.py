"""Shared helpers for the bounded stand-in (stratum B): guarded construction, outcome capture,
conversion of parglare trees."""
import contextlib
import io
import os
import signal
import sys

WALL_LIMIT_S = float(os.environ.get('VERIF_PARSE_WALL_LIMIT_S', '10'))

import parglare
from parglare import GLRParser, Grammar, Parser
from parglare.tables import LALR, SLR

KIND_NAME = {LALR: "LALR", SLR: "SLR"}


class BudgetExceeded(Exception):
    pass


class closure_budget:
    """Counting wrapper around parglare.tables.closure: a divergence detector for table
    construction (state budget, not a wall clock)."""

    def __init__(self, budget):
        self.budget = budget
        self.calls = 0

    def __enter__(self):
        import parglare.tables as T
        self.T = T
        self.orig = T.closure

        def counted(state, itemset_type, first_sets=None):
            self.calls += 1
            if self.calls > self.budget:
                raise BudgetExceeded(self.calls)
            return self.orig(state, itemset_type, first_sets)
        T.closure = counted
        return self

    def __exit__(self, *a):
        self.T.closure = self.orig
        return False


def build(cls, grammar, budget=4000, **kw):
    """Construct a parser with a closure budget; restores the grammar's augmented production if the
    construction is aborted by the budget (the abort is ours, not parglare's)."""
    p0 = grammar.productions[0]
    old_rhs = p0.rhs
    try:
        # parglare prints the whole table on conflicts (print_debug); keep the check's stdout clean
        with closure_budget(budget), contextlib.redirect_stdout(io.StringIO()):
            return guard_steps(cls(grammar, **kw))
    except BudgetExceeded:
        p0.rhs = old_rhs
        raise


class StepBudgetExceeded(Exception):
    pass


def guard_steps(parser, budget=3000):
    """Instance-level counting wrappers around the reduce step of the LR driver / GLR reducer: a
    divergence detector (step budget, not a wall clock).  Counter is reset by outcome()."""
    if getattr(parser, "_verif_guarded", False):
        return parser
    box = {"n": 0, "budget": budget}
    parser._verif_steps = box
    glr = hasattr(parser, "_do_reductions")
    names = ["_reduce", "_do_shifts", "_do_error_recovery", "default_error_recovery", "_next_token", "_next_tokens"] \
        if glr else ["_call_reduce_action", "_call_shift_action", "_do_recovery", "default_error_recovery",
                     "_next_token", "_next_tokens"]

    def wrap(orig):
        def counted(*a, **kw):
            box["n"] += 1
            if box["n"] > box["budget"]:
                raise StepBudgetExceeded(box["n"])
            return orig(*a, **kw)
        return counted
    for name in names:
        setattr(parser, name, wrap(getattr(parser, name)))
    parser._verif_guarded = True
    return parser


class WallClockExceeded(StepBudgetExceeded):
    pass


def _alarm(signum, frame):
    raise WallClockExceeded("wall clock")


def outcome(fn, *a, **kw):
    """('ok', result) | ('syntax', exc) | ('exc', exc) | ('budget', exc)"""
    owner = getattr(fn, "__self__", None)
    guarded = owner is not None and getattr(owner, "_verif_guarded", False)
    if guarded:
        owner._verif_steps["n"] = 0
        # second line of defence for loops that make no counted step (a generous wall-clock limit per
        # call; the calls of the scopes take well under a millisecond)
        signal.signal(signal.SIGALRM, _alarm)
        signal.setitimer(signal.ITIMER_REAL, WALL_LIMIT_S)
    try:
        return ("ok", fn(*a, **kw))
    except StepBudgetExceeded as e:
        return ("budget", e)
    except parglare.SyntaxError as e:
        return ("syntax", e)
    except RecursionError as e:
        return ("exc", e)
    except Exception as e:  # noqa
        return ("exc", e)
    finally:
        if guarded:
            signal.setitimer(signal.ITIMER_REAL, 0)


class TooDeep(Exception):
    pass


def node_to_spec(node, pmap, depth=0, limit=200):
    """parglare tree node (LR NodeTerm/NodeNonTerm, or GLR Tree/LazyTree proxy) -> spec tree
    ('T', name, start, end) | ('N', lhs, spec_prod_index, children)."""
    if depth > limit:
        raise TooDeep()
    if node.is_term():
        n = node.symbol.name
        if n.startswith("T_"):
            n = n[2:]
        return ("T", n, node.start_position, node.end_position)
    return ("N", node.symbol.name, pmap[node.production.prod_id],
            tuple(node_to_spec(c, pmap, depth + 1, limit) for c in node.children))


def raised_in_repo(e):
    """True when the innermost frame of the exception's traceback is parglare code (the real code
    raised while a monitor was using its public API), False when the checker's own code raised."""
    tb = e.__traceback__
    last = None
    while tb is not None:
        last = tb.tb_frame.f_code.co_filename
        tb = tb.tb_next
    return bool(last) and (os.sep + "parglare" + os.sep) in last and (os.sep + "vlib" + os.sep) not in last


def exc_str(e):
    return f"{type(e).__module__}.{type(e).__name__}: {str(e)[:200]}"
