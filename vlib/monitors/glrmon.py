"""Bounded stand-in for the whole-API contracts of GLRParser.parse (C01, C02, C03, C10-GLR, C17):
the postconditions are the property statements over the spec functions of vlib.spec, executed as
run-time monitors on the real parser over an exhaustive small scope."""
import itertools

import parglare
from parglare import GLRParser, Grammar
from parglare.exceptions import LoopError
from parglare.tables import LALR, SLR

from vlib.monitors.common import (BudgetExceeded, KIND_NAME, TooDeep, build, exc_str, node_to_spec,
                                  outcome, raised_in_repo)
from vlib.scope import grammar_text, inputs, prod_index_map
from vlib.spec import sppf
from vlib.spec.cfg import CFG, check_derivation, lit, lit_ic, regex, tree_shape

MAX_TREES = 400


def layout_variants(w, tier, maxlen_for_layout, layout_rule=False):
    yield "plain", w
    if layout_rule:
        # grammar with a LAYOUT rule (blanks and '#'): layout that only the LAYOUT sub-parser can skip
        yield "hash", "#" + " # ".join(w) + " #"
        if len(w) <= maxlen_for_layout:
            yield "hash2", "\n".join(w) + "##"
        return
    if len(w) <= maxlen_for_layout:
        yield "spaced", " " + " ".join(w) + ("  " if w else " ")
        if tier == "thorough" or len(w) <= 2:
            yield "newlines", "".join(c + "\n\t" for c in w)


def list_input_setup(prods):
    """list (non-string) inputs: terminals without a body, recognised by Python recognisers on list elements;
    returns (spec matchers, grammar text, recognizers for Grammar.from_string)"""
    ut = used_terms(prods) or ["a"]

    def spec_m(t):
        def m(seq, pos):
            return 1 if pos < len(seq) and seq[pos] == t else None
        m.kind = "str"
        m.text = t
        return m

    def rec(t):
        def r(inp, pos):
            return inp[pos:pos + 1] if pos < len(inp) and inp[pos] == t else None
        return r
    return ({t: spec_m(t) for t in ut}, grammar_text(prods, {t: "" for t in ut}), {f"T_{t}": rec(t) for t in ut})


def with_layout_rule(text):
    """the grammar text with a LAYOUT rule whose language is (blank | '#')*, and the layout alphabet"""
    lines = text.split("\n")
    rules = ["LAYOUT: LayoutItem*;", "LayoutItem: WS | HASH;"]
    tdecl = ["WS: /\\s+/;", "HASH: '#';"]
    if "terminals" in lines:
        k = lines.index("terminals")
        lines = lines[:k] + rules + lines[k:] + tdecl
    else:
        lines = lines + rules + ["terminals"] + tdecl
    return "\n".join(lines), "\n\r\t #"


def used_terms(prods):
    return sorted({s for _, r in prods for s in r if s.islower()})


# terminal sets: spec-side matcher and parglare-side declaration for the abstract terminals a, b
TERMSETS = {
    "disjoint": None,  # inline strings 'a', 'b'
    "prefix": {"a": (lit("a"), "'a'"), "b": (lit("ab"), "'ab'")},
    # a terminal that is a proper prefix of the other and can follow itself: a postponed shift of the
    # longer token meets fresh shifts one character later
    "prefix2": {"a": (lit("a"), "'a'"), "b": (lit("aa"), "'aa'")},
    "regex": {"a": (lit("a"), "'a'"), "b": (regex("a+"), "/a+/")},
    "regex2": {"a": (regex("a|ab"), "/a|ab/"), "b": (regex("b+"), "/b+/")},
}


def spec_tree_key(t):
    return tree_shape(t)


def glr_grammar_worker(args):
    """One grammar of the scope, both table kinds, all inputs.  args = (pid, prods, params)"""
    pid, prods, params = args
    tier = params["tier"]
    ts = TERMSETS[params.get("termset", "disjoint")]
    if ts is None:
        terms = {t: (lit_ic(t) if params.get("ignore_case") else lit(t)) for t in (used_terms(prods) or ["a"])}
        text = grammar_text(prods)
        tname = None
    else:
        ut = used_terms(prods)
        if not ut:
            return {"evaluations": 0, "nontrivial": 0, "violations": [], "samples": [], "counters": {}}
        terms = {t: ts[t][0] for t in ut}
        text = grammar_text(prods, {t: ts[t][1] for t in ut})
        tname = True
    ws = "\n\r\t "
    layout_rule = bool(params.get("layout_rule"))
    if layout_rule:
        text, ws = with_layout_rule(text)
    list_input = bool(params.get("list_input"))
    recognizers = None
    if list_input:
        terms, text, recognizers = list_input_setup(prods)
        ws = ""
    cfg = CFG(prods, terms, ws=ws)
    cyclic = cfg.is_cyclic()
    pmap = prod_index_map(prods)
    res = {"evaluations": 0, "nontrivial": 0, "violations": [], "samples": [], "counters": {}}
    cnt = res["counters"]

    def bump(k, n=1):
        cnt[k] = cnt.get(k, 0) + n

    def viol(monitor, kind, w, detail, **extra):
        key = {"grammar": text, "tables": KIND_NAME[kind], "input": w}
        if tname:
            key["termset"] = params["termset"]
        if layout_rule:
            key["layout"] = "LAYOUT rule"
        if params.get("ignore_case"):
            key["ignore_case"] = True
        if list_input:
            key["input_kind"] = "list"
        if params.get("lexdis"):
            key["lexical_disambiguation"] = True
        if params.get("custom_recognition"):
            key["custom_token_recognition"] = "identity wrapper"
        key.update(extra)
        res["violations"].append((monitor, key, detail,
                                  {"family": "glr", "pid": pid, "prods": prods, "params": params}))

    if pid in ("C02", "C17") and cyclic:
        return res  # these properties quantify over acyclic grammars
    try:
        if list_input:
            g = Grammar.from_string(text, recognizers=recognizers)
        else:
            g = Grammar.from_string(text, ignore_case=True) if params.get("ignore_case") else Grammar.from_string(text)
    except Exception as e:  # grammar front end refuses a reduced grammar
        res["violations"].append(("grammar.from_string", {"grammar": text}, exc_str(e)))
        return res
    alphabet = params.get("alphabet", "ab")
    only = params.get("only")
    for kind in (LALR, SLR):
        if only and KIND_NAME[kind] != only["tables"]:
            continue
        kw = {}
        if list_input:
            kw["ws"] = None
        if pid == "C17":
            kw["consume_input"] = False
        if params.get("lexdis"):
            kw["lexical_disambiguation"] = True
        if params.get("custom_recognition"):
            # a custom token recognition callable that only delegates to the built-in one (an identity wrapper)
            kw["custom_token_recognition"] = lambda head, get_tokens: get_tokens()
        try:
            parser = build(GLRParser, g, tables=kind, **kw)
        except BudgetExceeded:
            bump("skipped_construction_budget")
            continue
        except Exception as e:
            viol("glr.constructs", kind, None, exc_str(e))
            continue
        for w in inputs(alphabet, params["max_len"]):
            for vname, txt in ([("list", list(w))] if list_input else layout_variants(w, tier, params["layout_len"], layout_rule)):
                if only and txt != only["input"]:
                    continue
                res["evaluations"] += 1
                L = cfg.lattice(txt)
                ear = L.earley()
                if pid == "C17":
                    expect_ok = bool(ear["accept_nodes"])
                else:
                    expect_ok = ear["accepted"]
                if expect_ok or ear["last_node"] > 0:
                    res["nontrivial"] += 1
                st, val = outcome(parser.parse, txt)
                if len(res["samples"]) < 2 and expect_ok and len(w) >= 2:
                    res["samples"].append({"grammar": text, "tables": KIND_NAME[kind], "input": txt,
                                           "outcome": st})
                if st == "budget":
                    viol("glr.parse_terminates", kind, txt, {"observed": "more than 3000 reductions"})
                    continue
                if st == "exc":
                    viol("glr.only_syntax_error", kind, txt, {"expected": "forest or parglare.SyntaxError",
                                                              "observed": exc_str(val)})
                    continue
                if pid in ("C01", "C17", "C02", "C03"):
                    if (st == "ok") != expect_ok:
                        if pid in ("C01", "C17"):
                            viol("glr.accepts_iff_sentence", kind, txt,
                                 {"expected": "accept" if expect_ok else "SyntaxError",
                                  "observed": "accept" if st == "ok" else "SyntaxError"})
                        continue
                if pid == "C10":
                    if st == "ok":
                        continue
                    check_c10_error(val, txt, ear, viol, kind, bump)
                    continue
                if st != "ok":
                    continue
                forest = val
                try:
                    check_forest(pid, forest, cfg, L, cyclic, pmap, viol, kind, txt, bump, parser)
                except (TooDeep, RecursionError):
                    bump("tree_too_deep")
                except Exception as e:  # noqa
                    if not raised_in_repo(e):
                        raise
                    # the real code raised while the forest / its trees were read through the public API
                    viol("glr.forest_access_raises", kind, txt, {"observed": exc_str(e)})
    return res


def check_c10_error(e, txt, ear, viol, kind, bump):
    pos = e.location.start_position
    if pos != ear["error_position"]:
        viol("glr.error_at_first_offending_token", kind, txt,
             {"expected_position": ear["error_position"], "observed_position": pos})
    exp = {(s.name[2:] if s.name.startswith("T_") else s.name) for s in e.symbols_expected} - {"STOP"}
    if exp != set(ear["expected"]):
        viol("glr.symbols_expected_are_followers", kind, txt,
             {"expected": sorted(ear["expected"]), "observed": sorted(exp)})
    if "STOP" in {s.name for s in e.symbols_expected}:
        bump("glr_lists_STOP")
    check_rendering(e, txt, viol, kind, "glr")


def check_rendering(e, txt, viol, kind, who):
    pos = e.location.start_position
    try:
        s = str(e)
    except Exception as ex:
        viol(f"{who}.error_renders", kind, txt, {"expected": "str(error) succeeds", "observed": exc_str(ex)})
        return
    if isinstance(txt, str) and isinstance(pos, int):
        line = txt.count("\n", 0, pos) + 1
        col = pos - (txt.rfind("\n", 0, pos) + 1)
        if (e.location.line, e.location.column) != (line, col):
            viol(f"{who}.line_column", kind, txt, {"expected": [line, col],
                                                   "observed": [e.location.line, e.location.column]})
    if isinstance(pos, int):
        # (string and list inputs alike)
        says_eof = "end of file" in s
        if says_eof != (pos == len(txt)):
            viol(f"{who}.eof_message", kind, txt, {"expected_eof": pos == len(txt), "message": s[:200]})


def check_forest(pid, forest, cfg, L, cyclic, pmap, viol, kind, txt, bump, parser):
    root = forest.result
    # -- how many trees, by the spec recursion (never through parglare's own counting)
    try:
        n_spec = sppf.count_trees(root)
        forest_cyclic = False
    except sppf.Cyclic:
        n_spec = None
        forest_cyclic = True
    if pid == "C01":
        # every tree obtainable from the forest is a derivation tree of the input
        if forest_cyclic:
            idxs = [0]
        else:
            idxs = range(min(n_spec, MAX_TREES))
        for i in idxs:
            try:
                t = node_to_spec(forest.get_tree(i), pmap)
            except TooDeep:
                bump("tree_too_deep")
                continue
            except LoopError:
                bump("tree_not_enumerable_cyclic_forest")
                continue
            why = check_derivation(cfg, L, t)
            if why:
                viol("glr.tree_is_derivation", kind, txt, {"tree_index": i, "why": why})
                break
        return
    if pid in ("C02", "C17"):
        # (the reference enumeration is explicit: count first, a few grammars of the thorough scope have millions
        # of prefix derivations for one input and exhausted the worker's memory limit)
        n_ref = L.count_sentence_trees() if pid == "C02" else L.count_prefix_trees()
        if n_ref > MAX_TREES * 5:
            bump("reference_forest_too_large")
            return
        if pid == "C02":
            ref = L.sentence_trees()
        else:
            ref = [t for ts in L.prefix_trees().values() for t in ts]
        refset = {tree_shape(t) for t in ref}
        if n_spec is None or n_spec > MAX_TREES * 5:
            bump("forest_too_large")
            return
        got = []
        for i in range(n_spec):
            got.append(tree_shape(node_to_spec(forest.get_tree(i), pmap)))
        gotset = set(got)
        missing = refset - gotset
        if missing:
            viol("glr.forest_complete", kind, txt,
                 {"expected_trees": len(refset), "observed_distinct_trees": len(gotset),
                  "one_missing": repr(sorted(missing)[0])[:300]})
        if pid == "C17":
            # each tree parses exactly the prefix its root span claims
            for i in range(n_spec):
                t = forest.get_tree(i)
                why = prefix_span_report(t, L.text, ws=cfg.ws)
                if why:
                    viol("glr.prefix_tree_span_is_its_prefix", kind, txt, {"tree_index": i, "why": why})
                    break
            extra = gotset - refset
            if extra:
                viol("glr.prefix_trees_only", kind, txt, {"one_extra": repr(sorted(extra)[0])[:300]})
            if len(got) != len(gotset):
                viol("glr.each_derivation_once", kind, txt,
                     {"trees": len(got), "distinct": len(gotset)})
        return
    if pid == "C03":
        check_c03(forest, n_spec, forest_cyclic, pmap, viol, kind, txt, bump)


def prefix_span_report(tree, text, ws=" \n\r\t"):
    """The root span of a prefix tree ends where its last token ends (up to layout/empty matches)."""
    leaves = []

    def walk(n):
        if n.is_term():
            leaves.append(n)
        else:
            for c in n.children:
                walk(c)
    walk(tree)
    s, e = tree.start_position, tree.end_position
    if not (isinstance(s, int) and isinstance(e, int) and 0 <= s <= e <= len(text)):
        return f"root span ({s!r}, {e!r})"
    last = leaves[-1].end_position if leaves else s
    if text[last:e].strip(ws) != "" or e < last:
        return f"root span ends at {e} but its last token ends at {last}"
    return None


def check_c03(forest, n_spec, forest_cyclic, pmap, viol, kind, txt, bump):
    root = forest.result
    # LoopError only for genuinely infinite ambiguity
    st, val = outcome(lambda: forest.solutions)
    if forest_cyclic:
        if not (st == "exc" and isinstance(val, LoopError)):
            viol("forest.loop_error_iff_cyclic", kind, txt, {"expected": "LoopError", "observed": repr(val)[:100]})
        return
    if st != "ok":
        viol("forest.loop_error_iff_cyclic", kind, txt, {"expected": n_spec, "observed": exc_str(val)})
        return
    if not (val == n_spec == len(forest)):
        viol("forest.solutions_is_tree_count", kind, txt,
             {"expected": n_spec, "solutions": val, "len": len(forest)})
    dups = sppf.duplicate_alternatives(root)
    if dups:
        viol("forest.no_duplicate_alternatives", kind, txt,
             {"packed_nodes_with_duplicates": len(dups), "one": repr(dups[0][1])[:200]})
    amb = outcome(lambda: forest.ambiguities)
    exp_amb = sppf.ambiguous_nodes(root)
    if amb != ("ok", exp_amb):
        viol("forest.ambiguities_counts_ambiguous_nodes", kind, txt,
             {"expected": exp_amb, "observed": repr(amb[1])[:100]})
    n = min(n_spec, MAX_TREES)
    lazy, eager, again, spec = [], [], [], []
    for i in range(n):
        lazy.append(node_to_spec(forest[i], pmap))
        eager.append(node_to_spec(forest.get_nonlazy_tree(i), pmap))
        again.append(node_to_spec(forest.get_tree(i), pmap))
    if lazy != eager or lazy != again:
        j = next(i for i in range(n) if lazy[i] != eager[i] or lazy[i] != again[i])
        viol("forest.index_stable_lazy_eager", kind, txt, {"index": j})
    if len(set(lazy)) != len(lazy) and not dups:
        viol("forest.trees_pairwise_different", kind, txt, {"trees": len(lazy), "distinct": len(set(lazy))})
    if len(set(lazy)) != len(lazy) and dups:
        pass  # consequence of the duplicate alternatives reported above
    it = [node_to_spec(t, pmap) for t in itertools.islice(iter(forest), n)]
    if it != lazy:
        viol("forest.iteration_matches_index", kind, txt, {})
    first = node_to_spec(forest.get_first_tree(), pmap)
    if n and first != lazy[0]:
        viol("forest.first_tree_is_index_0", kind, txt, {})
    # the spec's own enumeration agrees on the order-free set and on the count
    if n == n_spec:
        specset = set()
        for i in range(n_spec):
            specset.add(_spec_pick_shape(sppf.tree_at(root, i), pmap))
        if specset != {tree_shape(t) for t in lazy}:
            viol("forest.index_enumerates_all_trees", kind, txt,
                 {"expected_distinct": len(specset), "observed_distinct": len(set(lazy))})
    for idx in (n_spec, n_spec + 1, 2 * n_spec + 3):
        st, val = outcome(lambda: forest[idx])
        st2, val2 = outcome(lambda: forest.get_nonlazy_tree(idx))
        for which, (s_, v_) in (("forest[i]", (st, val)), ("get_nonlazy_tree", (st2, val2))):
            if not (s_ == "exc" and isinstance(v_, IndexError)):
                viol("forest.index_out_of_range_raises", kind, txt,
                     {"index": idx, "len": n_spec, "access": which,
                      "observed": "a tree" if s_ == "ok" else exc_str(v_)})
                break


def _spec_pick_shape(t, pmap):
    if t[0] == "T":
        return ("T", t[1][2:] if t[1].startswith("T_") else t[1], t[3], t[4])
    return ("N", pmap[t[1]], tuple(_spec_pick_shape(c, pmap) for c in t[2]))
