"""Bounded stand-in for C11: error recovery terminates, spans are disciplined, the rest is parsed."""
import parglare
from parglare import GLRParser, Grammar, Parser
from parglare.exceptions import RRConflicts, SRConflicts
from parglare.parser import Token
from parglare.tables import LALR

from vlib.monitors.common import (BudgetExceeded, StepBudgetExceeded, TooDeep, build, exc_str, guard_steps,
                                  node_to_spec, outcome)
from vlib.monitors.glrmon import used_terms
from vlib.scope import grammar_text, inputs, prod_index_map
from vlib.spec import sppf
from vlib.spec.cfg import CFG, lit

WS = " \n\r\t"


def strat_skip_one(ctx, error, default):
    if ctx.position >= len(ctx.input_str):
        return False
    ctx.position += 1
    ctx.token_ahead = None
    return True


def strat_skip2_then_default(ctx, error, default):
    ctx.position += 2
    return default(ctx)


class Injector:
    """injects a missing expected terminal (zero length), at most once per input position and head
    state; gives up otherwise (so the strategy itself cannot loop)"""

    def __init__(self):
        self.seen = set()

    def reset(self):
        self.seen = set()

    def __call__(self, ctx, error, default):
        key = (ctx.position, ctx.state.state_id)
        if key in self.seen or len(self.seen) > 6:
            return False
        self.seen.add(key)
        for sym, acts in ctx.state.actions.items():
            if sym.name not in ("STOP", "EMPTY") and any(a.action == 0 for a in acts):
                ctx.token_ahead = Token(sym, sym.name, ctx.position, length=0)
                return True
        return False


STRATS = {"default": True, "skip_one": strat_skip_one, "skip2_then_default": strat_skip2_then_default,
          "inject": None}


def spans_report(errors, n):
    prev_end = 0
    for i, e in enumerate(errors):
        s, t = e.location.start_position, e.location.end_position
        if not (isinstance(s, int) and isinstance(t, int)):
            return f"error {i}: span ({s!r}, {t!r}) is not integral"
        if not (0 <= s <= t <= n):
            return f"error {i}: span [{s},{t}] not within 0..{n} with start <= end"
        if s < prev_end:
            return f"error {i}: span [{s},{t}] starts before the previous span's end {prev_end}"
        prev_end = t
    return None


def tree_over_input(tree, cfg, pmap, text):
    """derivation whose leaves are tokens of the input in input order; returns (why|None, leaf spans)"""
    leaves = []

    def walk(n, depth=0):
        if depth > 200:
            raise TooDeep()
        if n.is_term():
            leaves.append((n.start_position, n.end_position, n.symbol.name, n.value))
            return None
        pi = pmap.get(n.production.prod_id)
        if pi is None:
            return f"unknown production {n.production.prod_id}"
        l, r = cfg.prods[pi]
        if n.symbol.name != l or len(n.children) != len(r):
            return f"node {n.symbol.name} with {len(n.children)} children does not apply production {pi}"
        for c, s in zip(n.children, r):
            if c.symbol.name != s:
                return f"child {c.symbol.name} where production {pi} has {s}"
            w = walk(c, depth + 1)
            if w:
                return w
        return None
    why = walk(tree)
    if why:
        return why, leaves
    if tree.symbol.name != cfg.start:
        return "root is not the start symbol", leaves
    prev = 0
    for (s, e, name, val) in leaves:
        if e > s:      # injected tokens have zero length
            if text[s:e] != val or val != name:
                return f"leaf {name}[{s},{e}] is not a token of the input", leaves
        if s < prev:
            return f"leaf {name}[{s},{e}] out of input order", leaves
        prev = e
    return None, leaves


def same_result(cls, a, b, pmap):
    """cycle-safe comparison (Forest.to_str does not terminate on cyclic forests)"""
    if cls is Parser:
        return node_to_spec(a, pmap) == node_to_spec(b, pmap)
    try:
        na, nb = sppf.count_trees(a.result), sppf.count_trees(b.result)
    except sppf.Cyclic:
        return sppf.has_cycle(a.result) and sppf.has_cycle(b.result)
    if na != nb:
        return False
    return all(node_to_spec(a.get_tree(i), pmap) == node_to_spec(b.get_tree(i), pmap) for i in range(min(na, 10)))


def rec_worker(args):
    pid, prods, params = args
    res = {"evaluations": 0, "nontrivial": 0, "violations": [], "samples": [], "counters": {}}
    cnt = res["counters"]
    only = params.get("only")
    terms = {t: lit(t) for t in (used_terms(prods) or ["a"])}
    cfg = CFG(prods, terms)
    text = grammar_text(prods)
    pmap = prod_index_map(prods)

    def viol(mon, cfgname, w, detail):
        res["violations"].append((mon, {"grammar": text, "config": cfgname, "input": w}, detail,
                                  {"family": "generic", "module": "vlib.monitors.recmon", "function": "replay",
                                   "prods": prods, "params": {k: v for k, v in params.items() if k != "only"}}))
    try:
        g = Grammar.from_string(text)
    except Exception as e:  # noqa
        return res
    if params.get("corrupted"):
        from vlib import corpus
        ws_in = corpus.recovery_inputs(cfg, params["corrupted"])
    else:
        ws_in = list(inputs(params["alphabet"], params["max_len"]))
    for kind_name, cls in (("LR", Parser), ("GLR", GLRParser)):
        try:
            kw = {"build_tree": True} if cls is Parser else {}
            plain = build(cls, g, **kw)
        except (SRConflicts, RRConflicts, BudgetExceeded):
            continue
        for sname in params["strategies"]:
            cfgname = f"{kind_name}/{sname}"
            if only and only.get("config") != cfgname:
                continue
            inj = Injector() if sname == "inject" else None
            strat = inj if inj else STRATS[sname]
            try:
                rp = build(cls, g, error_recovery=strat, **kw)
            except Exception as e:  # noqa
                viol("rec.constructs", cfgname, None, exc_str(e))
                continue
            # (divergence detector, not a performance bound: GLR on the most ambiguous grammars of the
            # thorough scope needs ~3000 counted steps for 5 tokens; a budget of 2200 raised false alarms)
            rp._verif_steps["budget"] = 50000
            nonterm = 0
            for w in ws_in:
                if only and w != only["input"]:
                    continue
                res["evaluations"] += 1
                if inj:
                    inj.reset()
                L = cfg.lattice(w)
                is_sentence = L.earley()["accepted"]
                if not is_sentence and len(w.strip()) > 1:
                    res["nontrivial"] += 1
                st, val = outcome(rp.parse, w)
                if st == "budget":
                    viol("rec.parse_terminates", cfgname, w, {"observed": f"more than {rp._verif_steps['budget']} driver steps"})
                    nonterm = nonterm + 1
                    if nonterm >= 3:
                        break   # enough evidence for this configuration
                    continue
                if st == "exc":
                    if isinstance(val, parglare.exceptions.DisambiguationError):
                        continue
                    viol("rec.result_or_last_syntax_error", cfgname, w, {"observed": exc_str(val)})
                    continue
                if st == "syntax":
                    continue   # recovery failed: raising the last SyntaxError is allowed
                errors = list(rp.errors)
                why = spans_report(errors, len(w))
                if why:
                    viol("rec.error_spans_disciplined", cfgname, w, why)
                st0, val0 = outcome(plain.parse, w) if is_sentence else (None, None)
                # (an LR parser with resolved conflicts may reject a sentence: the clause is about inputs
                # the same parser accepts without recovery)
                if is_sentence and st0 == "ok":
                    if errors:
                        viol("rec.sentence_records_no_error", cfgname, w, {"errors": len(errors)})
                    elif st0 == "ok":
                        if not same_result(cls, val, val0, pmap):
                            viol("rec.sentence_same_result_as_without_recovery", cfgname, w, {})
                if sname != "default":
                    continue
                # default strategy: trees are derivations over input tokens, LR partition of the characters
                trees = []
                if cls is Parser:
                    trees = [val]
                else:
                    try:
                        n = sppf.count_trees(val.result)
                    except sppf.Cyclic:
                        n = 1
                    try:
                        trees = [val.get_tree(i) for i in range(min(n, 20))]
                    except parglare.exceptions.LoopError:
                        trees = []
                for t in trees:
                    try:
                        why, leaves = tree_over_input(t, cfg, pmap, w)
                    except (TooDeep, parglare.exceptions.LoopError):
                        continue
                    if why:
                        viol("rec.tree_is_derivation_over_input_tokens", cfgname, w, why)
                        break
                    if cls is Parser:
                        cover = [0] * len(w)
                        for (s, e, _, _) in leaves:
                            for i in range(s, e):
                                cover[i] += 1
                        for er in errors:
                            for i in range(er.location.start_position, er.location.end_position):
                                if w[i] not in WS:
                                    cover[i] += 1
                        bad = [i for i, ch in enumerate(w) if ch not in WS and cover[i] != 1]
                        if bad:
                            viol("rec.lr_characters_partitioned", cfgname, w,
                                 {"positions_not_covered_exactly_once": bad,
                                  "leaves": [(s, e) for s, e, _, _ in leaves],
                                  "error_spans": [(er.location.start_position, er.location.end_position) for er in errors]})
            if not res["samples"]:
                res["samples"].append({"grammar": text, "config": cfgname})
    return res


def replay(case, key):
    params = dict(case["params"])
    params["only"] = key
    return rec_worker(("C11", tuple((l, tuple(r)) for l, r in case["prods"]), params))
