"""Bounded stand-in for the whole-API contracts of Parser.parse (C04, C08, C10-LR) and the
positional contract on GLR trees (C08)."""
import parglare
from parglare import GLRParser, Grammar, Parser
from parglare.exceptions import DisambiguationError, RRConflicts, SRConflicts
from parglare.tables import LALR, SLR

from vlib.monitors.common import (BudgetExceeded, KIND_NAME, TooDeep, build, exc_str, node_to_spec,
                                  outcome)
from vlib.monitors.glrmon import (TERMSETS, check_rendering, layout_variants, list_input_setup, used_terms,
                                  with_layout_rule)
from vlib.scope import grammar_text, inputs, prod_index_map
from vlib.spec import sppf
from vlib.spec.cfg import CFG, check_derivation, lit, lit_ic, tree_shape

STRATEGIES = ((False, False), (True, False), (False, True), (True, True))


def positions_report(root, text, ws=" \n\r\t"):
    """C08 contract on one tree: returns None or a reason."""
    leaves = []

    def walk(n, lo, hi, path):
        s, e = n.start_position, n.end_position
        if not (isinstance(s, int) and isinstance(e, int)):
            return f"{path}: positions are not integers ({s!r}, {e!r})"
        if not (0 <= s <= e <= len(text)):
            return f"{path}: span [{s},{e}] outside 0..{len(text)}"
        if not (lo <= s and e <= hi):
            return f"{path}: span [{s},{e}] outside its parent's span [{lo},{hi}]"
        if n.is_term():
            if n.value != text[s:e]:
                return f"{path}: value {n.value!r} != input[{s}:{e}] {text[s:e]!r}"
            leaves.append(n)
            return None
        prev_end = s
        for i, c in enumerate(n.children):
            cs = c.start_position
            if isinstance(cs, int) and cs < prev_end:
                return f"{path}/{i}: sibling starts at {cs} before the previous sibling's end {prev_end}"
            why = walk(c, s, e, f"{path}/{i}:{c.symbol.name}")
            if why:
                return why
            prev_end = c.end_position
        return None

    why = walk(root, 0, len(text), root.symbol.name)
    if why:
        return why
    recon = "".join((lf.layout_content or "") + lf.value for lf in leaves)
    if not text.startswith(recon):
        return f"layout_content+value over the leaves gives {recon!r}, not a prefix of the input {text!r}"
    if text[len(recon):].strip(ws) != "":
        return f"leaves reproduce only {recon!r}; rest {text[len(recon):]!r} is not trailing layout"
    return None


def node_spans(root):
    out = []

    def walk(n):
        if n.is_term():
            out.append(("T", n.symbol.name, n.start_position, n.end_position))
        else:
            for c in n.children:
                walk(c)
            out.append(("N", n.symbol.name, n.start_position, n.end_position))
    walk(root)
    return out


def lr_grammar_worker(args):
    pid, prods, params = args
    tier = params["tier"]
    ts = TERMSETS[params.get("termset", "disjoint")]
    if ts is None:
        terms = {t: (lit_ic(t) if params.get("ignore_case") else lit(t)) for t in (used_terms(prods) or ["a"])}
        text = grammar_text(prods)
    else:
        ut = used_terms(prods)
        if not ut:
            return {"evaluations": 0, "nontrivial": 0, "violations": [], "samples": [], "counters": {}}
        terms = {t: ts[t][0] for t in ut}
        text = grammar_text(prods, {t: ts[t][1] for t in ut})
    ws = "\n\r\t "
    layout_rule = bool(params.get("layout_rule"))
    if layout_rule:
        text, ws = with_layout_rule(text)
    list_input = bool(params.get("list_input"))
    recognizers = None
    pkw = {}
    if list_input:
        terms, text, recognizers = list_input_setup(prods)
        ws = ""
        pkw["ws"] = None
    cfg = CFG(prods, terms, ws=ws)
    cyclic = cfg.is_cyclic()
    pmap = prod_index_map(prods)
    res = {"evaluations": 0, "nontrivial": 0, "violations": [], "samples": [], "counters": {}}
    cnt = res["counters"]
    only = params.get("only")

    def bump(k, n=1):
        cnt[k] = cnt.get(k, 0) + n

    def viol(monitor, kind, w, detail, **extra):
        key = {"grammar": text, "tables": KIND_NAME[kind], "input": w}
        if ts is not None:
            key["termset"] = params["termset"]
        if params.get("ignore_case"):
            key["ignore_case"] = True
        if layout_rule:
            key["layout"] = "LAYOUT rule"
        if list_input:
            key["input_kind"] = "list"
        key.update(extra)
        res["violations"].append((monitor, key, detail,
                                  {"family": "lr", "pid": pid, "prods": prods, "params": params}))

    try:
        if list_input:
            g = Grammar.from_string(text, recognizers=recognizers)
        else:
            g = Grammar.from_string(text, ignore_case=True) if params.get("ignore_case") else Grammar.from_string(text)
    except Exception as e:
        res["violations"].append(("grammar.from_string", {"grammar": text}, exc_str(e)))
        return res
    alphabet = params.get("alphabet", "ab")
    texts = [(w, vname, txt) for w in inputs(alphabet, params["max_len"])
             for vname, txt in ([("list", list(w))] if list_input else
                                layout_variants(w, tier, params["layout_len"], layout_rule))]
    oracle = {}

    def orc(txt):
        k = tuple(txt) if isinstance(txt, list) else txt
        o = oracle.get(k)
        if o is None:
            L = cfg.lattice(txt)
            o = oracle[k] = (L, L.earley())
        return o

    for kind in (LALR, SLR):
        if only and KIND_NAME[kind] != only["tables"]:
            continue
        glr = None
        if pid in ("C04", "C08"):
            try:
                glr = build(GLRParser, g, tables=kind, **pkw)
            except BudgetExceeded:
                bump("skipped_construction_budget")
                continue
        if pid == "C08":
            c08_glr(glr, cfg, texts, orc, viol, kind, bump, res, only)
        for (ps, pse) in STRATEGIES:
            strat = f"ps={int(ps)},pse={int(pse)}"
            if only and only.get("strategy") not in (None, strat):
                continue
            try:
                lr = build(Parser, g, tables=kind, prefer_shifts=ps, prefer_shifts_over_empty=pse,
                           build_tree=True, **pkw)
            except (SRConflicts, RRConflicts):
                bump("lr_construction_conflicts")
                continue
            except BudgetExceeded:
                bump("skipped_construction_budget")
                continue
            except Exception as e:
                viol("lr.constructs", kind, None, exc_str(e), strategy=strat)
                continue
            det = (not ps and not pse and
                   all(len(a) == 1 for s in lr.table.states for a in s.actions.values()))
            if det:
                bump("deterministic_tables")
            for (w, vname, txt) in texts:
                if only and txt != only["input"]:
                    continue
                res["evaluations"] += 1
                L, ear = orc(txt)
                if ear["accepted"] or ear["last_node"] > 0:
                    res["nontrivial"] += 1
                st, val = outcome(lr.parse, txt)
                if st == "budget":
                    bump("lr_parse_step_budget_exceeded")
                    if det:
                        viol("lrdet.parse_terminates", kind, txt,
                             {"observed": "more than 3000 reductions on an input of length %d" % len(txt)},
                             strategy=strat)
                    continue
                if len(res["samples"]) < 2 and ear["accepted"] and len(w) >= 2:
                    res["samples"].append({"grammar": text, "tables": KIND_NAME[kind], "strategy": strat,
                                           "input": txt, "deterministic": det, "outcome": st})
                if pid == "C04":
                    c04_case(st, val, det, cfg, L, ear, cyclic, pmap, glr, txt, viol, kind, strat, bump)
                elif pid == "C08":
                    if st == "ok":
                        why = positions_report(val, txt, ws=cfg.ws)
                        if why:
                            viol("lr.tree_positions_faithful", kind, txt, why, strategy=strat)
                        else:
                            c08_actions_see_same_positions(g, kind, ps, pse, val, txt, viol, strat)
                elif pid == "C10":
                    c10_case(st, val, det, ear, txt, viol, kind, strat, bump)
    return res


def c04_case(st, val, det, cfg, L, ear, cyclic, pmap, glr, txt, viol, kind, strat, bump):
    if st == "ok":
        if not ear["accepted"]:
            viol("lr.never_accepts_non_sentence", kind, txt, {"observed": "accepted"}, strategy=strat)
            return
        try:
            t = node_to_spec(val, pmap)
        except TooDeep:
            return
        why = check_derivation(cfg, L, t)
        if why:
            viol("lr.tree_is_derivation", kind, txt, why, strategy=strat)
            return
    if not det:
        return
    # deterministic table, no strategy: the grammar is unambiguous, LR is exact, GLR agrees
    if st == "exc":
        return  # other exception kinds are C10's business
    if ear["accepted"] and st != "ok":
        viol("lrdet.accepts_every_sentence", kind, txt, {"observed": "SyntaxError"}, strategy=strat)
        return
    if not ear["accepted"]:
        return
    if not cyclic:
        n = L.count_sentence_trees()
        if n != 1:
            viol("lrdet.grammar_unambiguous", kind, txt, {"derivations": n}, strategy=strat)
    gst, gval = outcome(glr.parse, txt)
    if gst != "ok":
        viol("lrdet.glr_single_equal_tree", kind, txt, {"glr": exc_str(gval)}, strategy=strat)
        return
    try:
        n_glr = sppf.count_trees(gval.result)
    except sppf.Cyclic:
        n_glr = None
    if n_glr != 1:
        viol("lrdet.glr_single_equal_tree", kind, txt, {"glr_trees": n_glr}, strategy=strat)
        return
    if tree_shape(node_to_spec(gval.get_tree(0), pmap)) != tree_shape(node_to_spec(val, pmap)):
        viol("lrdet.glr_single_equal_tree", kind, txt, {"glr_tree": "differs from the LR tree"}, strategy=strat)


def c10_case(st, val, det, ear, txt, viol, kind, strat, bump):
    if st == "ok":
        return
    if st == "exc":
        if isinstance(val, DisambiguationError) and not det:
            return
        viol("lr.only_syntax_error", kind, txt,
             {"expected": "parglare.SyntaxError", "observed": exc_str(val)}, strategy=strat)
        return
    e = val
    if det and not ear["accepted"]:
        pos = e.location.start_position
        if pos != ear["error_position"]:
            viol("lrdet.error_at_first_offending_token", kind, txt,
                 {"expected_position": ear["error_position"], "observed_position": pos}, strategy=strat)
    elif not det and not ear["accepted"]:
        if e.location.start_position != ear["error_position"]:
            bump("lr_resolved_conflicts_reports_other_position")

    def v2(m, k, t, d):
        viol(m, k, t, d, strategy=strat)
    check_rendering(e, txt, v2, kind, "lr")


def c08_actions_see_same_positions(g, kind, ps, pse, tree, txt, viol, strat):
    seen = []

    def mk(name):
        def act(ctx, nodes):
            seen.append(("N", name, ctx.start_position, ctx.end_position))
            return name
        return act

    def mkt(name):
        def act(ctx, value):
            seen.append(("T", name, ctx.start_position, ctx.end_position))
            return value
        return act
    actions = {}
    # (symbols of the LAYOUT rule of the LAYOUT-rule configuration are not part of the tree)
    layout_syms = ("LAYOUT", "LayoutItem", "LayoutItem_0", "LayoutItem_1", "WS", "HASH")
    for nt in g.nonterminals.values():
        if nt.name not in ("S'",) + layout_syms:
            actions[nt.name] = mk(nt.name)
    for t in g.terminals.values():
        if t.name not in ("STOP", "EMPTY") + layout_syms:
            actions[t.name] = mkt(t.name)
    old = {s: s.action for s in list(g.nonterminals.values()) + list(g.terminals.values())}
    old_ga = {s: getattr(s, "grammar_action", None) for s in old}
    try:
        p = Parser(g, tables=kind, prefer_shifts=ps, prefer_shifts_over_empty=pse, actions=actions)
        st, val = outcome(p.parse, txt)
    finally:
        for s, a in old.items():
            s.action = a
    if st != "ok":
        viol("lr.actions_see_tree_positions", kind, txt, {"observed": "parse with actions failed: " + repr(val)[:100]},
             strategy=strat)
        return
    exp = node_spans(tree)
    if seen != exp:
        viol("lr.actions_see_tree_positions", kind, txt,
             {"tree_spans": repr(exp)[:300], "action_spans": repr(seen)[:300]}, strategy=strat)


def c08_glr(glr, cfg, texts, orc, viol, kind, bump, res, only):
    for (w, vname, txt) in texts:
        if only and (txt != only["input"] or only.get("strategy") != "glr"):
            continue
        L, ear = orc(txt)
        if not ear["accepted"]:
            continue
        res["evaluations"] += 1
        res["nontrivial"] += 1
        st, forest = outcome(glr.parse, txt)
        if st != "ok":
            continue
        try:
            n = sppf.count_trees(forest.result)
        except sppf.Cyclic:
            n = 1
        for i in range(min(n, 60)):
            try:
                why = positions_report(forest.get_tree(i), txt, ws=cfg.ws)
            except parglare.exceptions.LoopError:
                break
            if why:
                viol("glr.tree_positions_faithful", kind, txt, {"tree_index": i, "why": why}, strategy="glr")
                break
