"""Bounded stand-in for C14: layout is invisible (metamorphic), and a LAYOUT rule that matches runs of
the ws characters behaves like the ws parameter."""
import contextlib
import io

import parglare
from parglare import GLRParser, Grammar, Parser
from parglare.exceptions import RRConflicts, SRConflicts
from parglare.tables import LALR, SLR

from vlib.monitors.common import BudgetExceeded, KIND_NAME, build, exc_str, outcome
from vlib.scope import grammar_text, inputs
from vlib.spec import sppf

LAYOUT_WS = "\nLAYOUT: WS | EMPTY;\nterminals\nWS: /[\\n\\r\\t ]+/;"
LAYOUT_COMMENTS = r"""
LAYOUT: LayoutItem | LAYOUT LayoutItem | EMPTY;
LayoutItem: WS | Comment;
Comment: '/*' CorNCs '*/' | LineComment;
CorNCs: CorNC | CorNCs CorNC | EMPTY;
CorNC: Comment | NotComment | WS;
terminals
WS: /\s+/;
LineComment: /\/\/.*/;
NotComment: /((\*[^\/])|[^\s*\/]|\/[^\*])+/;"""

FILL_WS = [" ", "\n\t ", "  \r\n"]
FILL_COMMENTS = [" ", "// c\n", "/* x /* y */ z */", " /* a */ // b\n "]


def shape(n):
    if n.is_term():
        return ("T", n.symbol.name, n.value)
    return ("N", n.production.prod_id, tuple(shape(c) for c in n.children))


def details(n, out):
    """positions and layout of every node (for the ws == LAYOUT-ws clause)"""
    if n.is_term():
        out.append(("T", n.symbol.name, n.start_position, n.end_position, n.layout_content))
    else:
        for c in n.children:
            details(c, out)
        out.append(("N", n.production.prod_id, n.start_position, n.end_position))
    return out


def result_of(parser, text, want_details=False):
    st, val = outcome(parser.parse, text)
    if st == "syntax":
        return ("reject", val.location.start_position)
    if st != "ok":
        return ("exc", exc_str(val))
    if isinstance(parser, GLRParser):
        try:
            n = sppf.count_trees(val.result)
        except sppf.Cyclic:
            return ("accept-cyclic", None)
        trees = [val.get_tree(i) for i in range(min(n, 30))]
        if want_details:
            return ("accept", n, tuple(tuple(details(t, [])) for t in trees))
        return ("accept", n, tuple(sorted(repr(shape(t)) for t in trees)))
    if want_details:
        return ("accept", 1, (tuple(details(val, [])),))
    return ("accept", 1, (repr(shape(val)),))


def relayouts(tokens, fillers):
    """token string laid out with every filler at every single boundary, and at all boundaries"""
    n = len(tokens)
    for f in fillers:
        for pos in range(n + 1):
            parts = []
            for i, t in enumerate(tokens):
                if i == pos:
                    parts.append(f)
                parts.append(t)
            if pos == n:
                parts.append(f)
            yield "".join(parts)
        yield f + f.join(tokens) + f


def layout_worker(args):
    pid, prods, params = args
    res = {"evaluations": 0, "nontrivial": 0, "violations": [], "samples": [], "counters": {}}
    base = grammar_text(prods)
    only = params.get("only")

    def viol(mon, cfgname, w, detail):
        res["violations"].append((mon, {"grammar": base, "config": cfgname, "input": w}, detail,
                                  {"family": "generic", "module": "vlib.monitors.layoutmon", "function": "replay",
                                   "prods": prods, "params": {k: v for k, v in params.items() if k != "only"}}))
    texts = {"ws": base, "LAYOUT-ws": base + LAYOUT_WS, "LAYOUT-comments": base + LAYOUT_COMMENTS}
    try:
        gs = {k: Grammar.from_string(t) for k, t in texts.items()}
    except Exception as e:  # noqa
        viol("layout.grammar_loads", None, None, exc_str(e))
        return res
    words = list(inputs("ab", params["max_len"]))
    for kind in (LALR, SLR):
        for cls in (Parser, GLRParser):
            parsers = {}
            for k, g in gs.items():
                cfgname = f"{cls.__name__}/{KIND_NAME[kind]}/{k}"
                try:
                    kw = {"build_tree": True} if cls is Parser else {}
                    parsers[k] = build(cls, g, tables=kind, **kw)
                except (SRConflicts, RRConflicts, BudgetExceeded):
                    parsers = None
                    break
                except Exception as e:  # noqa
                    viol("layout.parser_constructs", cfgname, None, exc_str(e))
                    parsers = None
                    break
            if not parsers:
                continue
            for w in words:
                toks = list(w)
                for k, fillers in (("ws", FILL_WS), ("LAYOUT-ws", FILL_WS), ("LAYOUT-comments", FILL_COMMENTS)):
                    cfgname = f"{cls.__name__}/{KIND_NAME[kind]}/{k}"
                    if only and only.get("config") != cfgname:
                        continue
                    p = parsers[k]
                    ref = result_of(p, w)
                    for v in relayouts(toks, fillers):
                        if only and v != only["input"]:
                            continue
                        res["evaluations"] += 1
                        if ref[0] == "accept" and len(w) >= 2:
                            res["nontrivial"] += 1
                        got = result_of(p, v)
                        same = (got[0] == ref[0]) and (got[0] != "accept" or got[1:] == ref[1:])
                        if not same:
                            viol("layout.relayout_changes_nothing", cfgname, v,
                                 {"without_layout": ref[:2], "with_layout": got[:2], "tokens": w})
                            break
                # ws parameter == LAYOUT rule matching runs of the ws characters
                cfgname = f"{cls.__name__}/{KIND_NAME[kind]}/ws-vs-LAYOUT-ws"
                if only and only.get("config") != cfgname:
                    continue
                for v in [w] + list(relayouts(toks, FILL_WS[:2])):
                    if only and v != only["input"]:
                        continue
                    res["evaluations"] += 1
                    a = result_of(parsers["ws"], v, want_details=True)
                    b = result_of(parsers["LAYOUT-ws"], v, want_details=True)
                    if a != b:
                        viol("layout.LAYOUT_rule_equals_ws_parameter", cfgname, v,
                             {"ws": repr(a)[:300], "LAYOUT": repr(b)[:300]})
                        break
    if not res["samples"]:
        res["samples"].append({"grammar": base, "fillers": FILL_COMMENTS})
    return res


def replay(case, key):
    params = dict(case["params"])
    params["only"] = key
    return layout_worker(("C14", tuple((l, tuple(r)) for l, r in case["prods"]), params))
