"""Bounded stand-in for C15: parse(x) depends only on (grammar, construction options, x): histories of
operations on one Grammar object / parser instances followed by probe parses, compared with parsers
built from a fresh Grammar."""
import contextlib
import io
import itertools

import parglare
from parglare import GLRParser, Grammar, Parser
from parglare.exceptions import RRConflicts, SRConflicts
from parglare.tables import LALR, SLR

from vlib.monitors.common import exc_str, outcome
from vlib.spec import sppf

GRAMMAR = r"""
Prog: Stmt+;
Stmt: 'for' ID ';' | E ';' | BOOM ';';
E: E '+' E | ID | NUM;
%s
terminals
ID: /[a-z]+/;
NUM: /\d+/;
BOOM: ;
%s
"""
LAYOUT_RULES = "LAYOUT: LayoutItem | LAYOUT LayoutItem | EMPTY;\nLayoutItem: WS | Comment;"
LAYOUT_TERMS = "WS: /\\s+/;\nComment: /\\/\\/.*/;"


class Boom(Exception):
    pass


def boom_recognizer(input_str, pos):
    if input_str[pos:pos + 1] == "!":
        return "!"
    if input_str[pos:pos + 1] == "?":
        raise Boom("recognizer")
    return None


def make_actions():
    def stmt_for(_, n):
        return ("for", n[1])

    def num(_, v):
        if v == "13":
            raise Boom("action")
        return int(v)
    return {"NUM": num, "Stmt": [stmt_for, lambda _, n: ("e", n[0]), lambda _, n: ("boom",)]}


def new_grammar(layout):
    text = GRAMMAR % ((LAYOUT_RULES, LAYOUT_TERMS) if layout else ("", ""))
    return Grammar.from_string(text, recognizers={"BOOM": boom_recognizer})


PARSERS = {
    "LR": (Parser, {}),
    "LR-rec": (Parser, {"error_recovery": True}),
    "GLR": (GLRParser, {}),
    "GLR-lex": (GLRParser, {"lexical_disambiguation": True}),
    "GLR-slr": (GLRParser, {"tables": SLR}),
    "GLR-shifts": (GLRParser, {"prefer_shifts": True, "prefer_shifts_over_empty": True}),
}
PROBES = ["for x; a+b;", "forest; 1+2;", "a+b+c;", "for ;", "a + ;", "a+13;", "!;", "a ? b;", "", "for x; // c\n a;"]
INPUT_OPS = {"ok": "for x; a+b+1;", "bad": "for for;", "bad2": "a + ;", "act_raises": "a+13; b;", "rec_raises": "a ? b;",
             "boom_ok": "!; a;"}


def sig(parser, w):
    st, val = outcome(parser.parse, w)
    if st == "ok":
        if isinstance(parser, GLRParser):
            try:
                n = sppf.count_trees(val.result)
            except sppf.Cyclic:
                return ("ok", "cyclic")
            return ("ok", n, tuple(val.get_tree(i).to_str() for i in range(min(n, 12))))
        return ("ok", repr(val))
    if st == "syntax":
        return ("SyntaxError", val.location.start_position, tuple(sorted(s.name for s in val.symbols_expected)))
    return (type(val).__name__,)


def build(g, name):
    cls, kw = PARSERS[name]
    with contextlib.redirect_stdout(io.StringIO()):
        return cls(g, actions=make_actions(), **kw)


def reuse_worker(args):
    pid, (layout, main, hist), params = args
    res = {"evaluations": 0, "nontrivial": 0, "violations": [], "samples": [], "counters": {}}

    def viol(mon, detail):
        res["violations"].append((mon, {"layout": layout, "parser": main, "history": list(hist)}, detail,
                                  {"family": "generic", "module": "vlib.monitors.reusemon", "function": "replay",
                                   "case": [layout, main, list(hist)], "params": params}))
    g = new_grammar(layout)
    try:
        p = build(g, main)
    except Exception as e:  # noqa
        viol("reuse.constructs", exc_str(e))
        return res
    built_later = []
    for op in hist:
        if op in INPUT_OPS:
            outcome(p.parse, INPUT_OPS[op])
        elif op.startswith("build:"):
            try:
                built_later.append((op[6:], build(g, op[6:])))
            except Exception as e:  # noqa
                viol("reuse.later_construction_succeeds", {"op": op, "observed": exc_str(e)})
        elif op == "failed_build_conflicts":
            with contextlib.redirect_stdout(io.StringIO()):
                try:
                    Parser(g, actions=make_actions(), prefer_shifts=False, prefer_shifts_over_empty=False)
                    viol("reuse.history_op", "expected SRConflicts")
                except (SRConflicts, RRConflicts):
                    pass
        elif op == "failed_build_actions":
            try:
                acts = make_actions()
                acts["NoSuchSymbol"] = lambda _, n: n
                Parser(g, actions=acts)     # the same actions plus one for a symbol that does not exist
            except Exception:  # noqa
                pass
            # the failed construction must not leave its actions behind: rebuild the main action table
    # probes on the reused instance, on instances built during the history, and on one built now
    fresh_g = new_grammar(layout)
    for name, inst in [(main, p)] + built_later + [(main + "(built after)", None)]:
        base = name.split("(")[0]
        try:
            ref = build(fresh_g, base)
            if inst is None:
                inst = build(g, base)
        except Exception as e:  # noqa
            viol("reuse.later_construction_succeeds", {"parser": name, "observed": exc_str(e)})
            continue
        for w in PROBES:
            res["evaluations"] += 1
            if hist:
                res["nontrivial"] += 1
            a, b = sig(inst, w), sig(ref, w)
            if a != b:
                viol("reuse.same_outcome_as_fresh_parser", {"probe_parser": name, "probe_input": w,
                                                            "reused": repr(a)[:300], "fresh": repr(b)[:300]})
                break
    if not res["samples"]:
        res["samples"].append({"layout": layout, "parser": main, "history": list(hist)})
    return res


def replay(case, key):
    c = case["case"]
    return reuse_worker(("C15", (c[0], c[1], tuple(c[2])), case["params"]))


def cases(tier):
    ops = list(INPUT_OPS) + [f"build:{n}" for n in ("LR", "GLR", "GLR-lex", "GLR-slr", "GLR-shifts")] + \
        ["failed_build_conflicts", "failed_build_actions"]
    out = []
    for layout in (False, True):
        for main in ("LR", "LR-rec", "GLR", "GLR-lex"):
            hs = [()] + [(o,) for o in ops] + list(itertools.product(ops, repeat=2))
            if tier == "thorough":
                hs += list(itertools.product(ops, repeat=3))[::5]
            else:
                hs = hs[:1 + len(ops)] + hs[1 + len(ops):][::3]
            out.extend((layout, main, h) for h in hs)
    return out
