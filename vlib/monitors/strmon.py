"""Bounded stand-in for C19: string terminals match their literal text (inline == declared); KEYWORD
adds whole-word matching; keyword terminals keep string precedence."""
import contextlib
import io
import itertools
import re

import parglare
from parglare import Grammar, Parser
from parglare.exceptions import DisambiguationError

from vlib.monitors.common import exc_str, outcome

CHARS = "ab1.|+*()[]?$^{},;:-=<>/#@!&%~_\"' "
TEXTS_1 = [c for c in CHARS if c != " "]
TEXTS_2 = ["ab", "a.", ".a", "..", "a|", "||", "a+", "++", "a*", "(a", "a)", "()", "[a", "a]", "[]", "a?", "^a", "a$",
           "{}", "a,", "a;", "a:", "a-", "a=", "<>", "a/", "a#", "a@", "a!", "a&", "a%", "a~", "a_", "_a", "a1", "1a",
           "a'", "'a", "a\"", "\"a", "a b", "\\", "\\.", "a\\", "S", "T", "EMPTY", "STOP", "in", "in:", "c++", "if("]


def enc(t):
    """a single-quoted parglare string constant denoting text t (backslash and quote escaped)"""
    return "'" + t.replace("\\", "\\\\").replace("'", "\\'") + "'"


def accepts(parser, u):
    st, val = outcome(parser.parse, u)
    return "accept" if st == "ok" else ("reject" if st == "syntax" else exc_str(val))


def literal_worker(args):
    pid, t, params = args
    res = {"evaluations": 0, "nontrivial": 0, "violations": [], "samples": [], "counters": {}}
    only = params.get("only")
    others = ["a", "b", ".", "+", "x", "A"]
    inputs = {t, t + t}
    for o in others:
        inputs |= {t + o, o + t, o}
    if len(t) > 1:
        inputs |= {t[:-1], t[1:], t[:-1] + "x", "x" + t[1:]}
    inputs |= {t.upper(), t.lower(), t.swapcase()}
    inputs.discard("")
    for ic in (False, True):
        forms = {"inline": f"S: {enc(t)};\nA: 'zz';", "declared": f"S: T;\nA: 'zz';\nterminals\nT: {enc(t)};"}
        ps = {}
        for name, text in forms.items():
            cfgname = f"{name}/ignore_case={ic}"
            try:
                with contextlib.redirect_stdout(io.StringIO()):
                    g = Grammar.from_string(text, ignore_case=ic)
                    ps[name] = Parser(g, ws=None)
            except Exception as e:  # noqa
                res["violations"].append(("str.grammar_with_string_terminal_loads", {"text": t, "config": cfgname},
                                          exc_str(e), {"family": "generic", "module": "vlib.monitors.strmon",
                                                       "function": "replay_literal", "t": t, "params": params}))
        for u in sorted(inputs):
            for name, p in ps.items():
                cfgname = f"{name}/ignore_case={ic}"
                if only and (only.get("config") != cfgname or only.get("input") != u):
                    continue
                res["evaluations"] += 1
                res["nontrivial"] += 1
                exp = "accept" if (u == t or (ic and u.lower() == t.lower())) else "reject"
                got = accepts(p, u)
                if got != exp:
                    res["violations"].append(("str.matches_exactly_its_literal_text", {"text": t, "config": cfgname, "input": u},
                                              {"expected": exp, "observed": got},
                                              {"family": "generic", "module": "vlib.monitors.strmon",
                                               "function": "replay_literal", "t": t, "params": params}))
    res["samples"].append({"text": t, "grammar_constant": enc(t)})
    return res


def replay_literal(case, key):
    params = dict(case["params"])
    params["only"] = key
    return literal_worker(("C19", case["t"], params))


# ---- KEYWORD --------------------------------------------------------------------------------------------
KEYWORD_RES = [r"\w+", r"[a-z]+", r"\S+"]
KW_TEXTS = ["in", "in:", "end", "end;", "x+", "if(", "a", "ab", "for", "c++", "+", "=="]
IDRE = r"[a-z_]\w*"


def isword(ch):
    return bool(re.match(r"\w", ch))


def spec_token(texts, kwre, u, ignore_case, pos=0):
    """token chosen at position 0 by the documented rules: string terminals match literally, those fully
    matched by KEYWORD only between non-word characters; strings (and keywords) beat the ID regex;
    among strings the longest"""
    cands = []
    flags = re.IGNORECASE if ignore_case else 0
    for t in texts:
        seg = u[pos:pos + len(t)]
        if seg == t or (ignore_case and seg.lower() == t.lower()):
            is_kw = re.fullmatch(kwre, t) is not None
            end = pos + len(t)
            if is_kw and ((end < len(u) and isword(u[end])) or (pos > 0 and isword(u[pos - 1]))):
                continue
            cands.append(("str", t))
    if cands:
        return max(cands, key=lambda c: len(c[1]))
    m = re.compile(IDRE, flags).match(u, pos)
    if m:
        return ("id", m.group())
    return None


def keyword_worker(args):
    pid, case, params = args
    kwre, texts, ic = case
    res = {"evaluations": 0, "nontrivial": 0, "violations": [], "samples": [], "counters": {}}
    only = params.get("only")
    text = ("S: " + " | ".join(enc(t) for t in texts) + " | ID;\nterminals\nID: /" + IDRE + "/;\nKEYWORD: /" + kwre + "/;")

    def viol(mon, u, detail):
        res["violations"].append((mon, {"grammar": text, "ignore_case": ic, "input": u}, detail,
                                  {"family": "generic", "module": "vlib.monitors.strmon", "function": "replay_keyword",
                                   "case": [kwre, list(texts), ic], "params": {k: v for k, v in params.items() if k != "only"}}))
    try:
        with contextlib.redirect_stdout(io.StringIO()):
            g = Grammar.from_string(text, ignore_case=ic)
            p = Parser(g, build_tree=True)
    except Exception as e:  # noqa
        viol("kw.grammar_loads", None, exc_str(e))
        return res
    pool = set()
    for t in texts:
        pool |= {t, t + "x", t + "1", t + "_", t + " ", t + ";", t + "+", "x" + t, t + t}
    pool |= {"x", "inx", "ab1"}
    if ic:
        pool |= {u.upper() for u in list(pool)}
    for u in sorted(pool):
        if only and u != only["input"]:
            continue
        res["evaluations"] += 1
        tok = spec_token(texts, kwre, u, ic)
        # the grammar is one token long: accept iff the chosen token (plus trailing blanks) is the input
        exp = "reject"
        if tok is not None and u[len(tok[1]):].strip() == "":
            exp = ("accept", "ID" if tok[0] == "id" else tok[1])
        if tok is not None and tok[0] == "str":
            res["nontrivial"] += 1
        st, val = outcome(p.parse, u)
        if st == "ok":
            leaf = val.children[0]
            got = ("accept", leaf.symbol.name)
        elif st == "syntax":
            got = "reject"
        else:
            got = exc_str(val)
        if got != exp:
            viol("kw.string_terminals_with_KEYWORD", u, {"expected": exp, "observed": got})
    # second form: the string terminal follows the token '1' (a word character) with or without blanks
    text2 = ("S: '1' X;\nX: " + " | ".join(enc(t) for t in texts) + " | ID;\nterminals\nID: /" + IDRE +
             "/;\nKEYWORD: /" + kwre + "/;")
    try:
        with contextlib.redirect_stdout(io.StringIO()):
            p2 = Parser(Grammar.from_string(text2, ignore_case=ic), build_tree=True)
    except Exception as e:  # noqa
        viol("kw.grammar_loads", None, exc_str(e))
        return res
    for u0 in sorted(pool):
        for u in ("1" + u0, "1 " + u0):
            if only and u != only["input"]:
                continue
            res["evaluations"] += 1
            first = spec_token(["1"], kwre, u, ic, 0)
            exp = "reject"
            if first == ("str", "1"):
                p_ = 1
                while p_ < len(u) and u[p_] in " \t\n":
                    p_ += 1
                tok = spec_token(texts, kwre, u, ic, p_)
                if tok is not None and u[p_ + len(tok[1]):].strip() == "":
                    exp = ("accept", "ID" if tok[0] == "id" else tok[1])
            st, val = outcome(p2.parse, u)
            if st == "ok":
                got = ("accept", val.children[1].children[0].symbol.name)
            elif st == "syntax":
                got = "reject"
            else:
                got = exc_str(val)
            if got != exp:
                res["violations"].append(("kw.string_terminals_with_KEYWORD", {"grammar": text2, "ignore_case": ic, "input": u},
                                          {"expected": exp, "observed": got},
                                          {"family": "generic", "module": "vlib.monitors.strmon", "function": "replay_keyword",
                                           "case": [kwre, list(texts), ic], "params": {k: v for k, v in params.items() if k != "only"}}))
    res["samples"].append({"grammar": text})
    return res


def replay_keyword(case, key):
    c = case["case"]
    params = dict(case["params"])
    params["only"] = key
    return keyword_worker(("C19", (c[0], tuple(c[1]), c[2]), params))


def keyword_cases(tier):
    out = []
    for kwre in KEYWORD_RES:
        for k in (1, 2):
            for texts in itertools.combinations(KW_TEXTS, k):
                for ic in (False, True):
                    if ic and tier == "quick" and k == 2 and hash(texts) % 3:
                        continue
                    out.append((kwre, texts, ic))
    return out
