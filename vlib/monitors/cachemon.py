"""Bounded stand-in for C12: the table cache is transparent for every history of the scope, for
every byte-prefix of a written .pgc, and save/load round-trips."""
import contextlib
import io
import itertools
import json
import os
import shutil
import tempfile

import parglare
from parglare import GLRParser, Grammar, Parser
from parglare.tables import LALR, SLR

from vlib.monitors.common import exc_str, outcome
from vlib.spec import sppf

ROOT_V = [
    "import 'sub.pg' as s;\nE: E '+' E | E '*' E | 'n' | s.X;\n",
    "import 'sub.pg' as s;\nE: E '+' E | E '*' E | 'n' | s.X | 'm';\n",
    "import 'sub.pg' as s;\nE: E '+' E | E '*' E | 'n' | s.X | 'm' | '(' E ')';\n",
]
SUB_V = ["import 'leaf.pg' as l;\nX: 'x' | 'x' 'x' | l.Y;\n", "import 'leaf.pg' as l;\nX: 'x' | 'x' 'x' | 'y' | l.Y;\n",
         "import 'leaf.pg' as l;\nX: 'x' | 'x' 'x' | 'y' | 'z' X | l.Y;\n"]
LEAF_V = ["Y: 'k';\n", "Y: 'k' | 'k' 'k';\n", "Y: 'k' | 'k' 'k' | 'j';\n"]
INPUTS = ["n", "n+n*n", "n*n+n+n", "x", "xx", "y", "m", "zx", "(n)", "n+", "q", "k", "kk", "j", "n+kk"]

BUILDS = {
    "P": (Parser, {}),
    "P-noshift": (Parser, {"prefer_shifts": False}),
    "P-slr": (Parser, {"tables": SLR}),
    "G": (GLRParser, {}),
    "G-shifts": (GLRParser, {"prefer_shifts": True, "prefer_shifts_over_empty": True}),
    "G-slr": (GLRParser, {"tables": SLR}),
}
OTHER = ["edit_root", "edit_sub", "edit_leaf", "touch_root", "touch_leaf", "compile"]


def signature(cls, kw, path):
    """observable behaviour of a parser built from the grammar file at `path`"""
    try:
        with contextlib.redirect_stdout(io.StringIO()):
            g = Grammar.from_file(path)
            p = cls(g, build_tree=True, **kw) if cls is Parser else cls(g, **kw)
    except Exception as e:  # noqa
        return ("construction", type(e).__name__)
    sig = []
    for w in INPUTS:
        st, val = outcome(p.parse, w)
        if st == "ok":
            if cls is Parser:
                sig.append((w, "ok", val.to_str()))
            else:
                n = sppf.count_trees(val.result)
                sig.append((w, "ok", n, tuple(val.get_tree(i).to_str() for i in range(min(n, 20)))))
        else:
            sig.append((w, type(val).__name__))
    return tuple(sig)


class World:
    def __init__(self):
        self.d = tempfile.mkdtemp(prefix="verif_c12_")
        self.clock = 1_000_000_000
        self.rv = self.sv = self.lv = 0
        self.write("root.pg", ROOT_V[0])
        self.write("sub.pg", SUB_V[0])
        self.write("leaf.pg", LEAF_V[0])

    def tick(self):
        self.clock += 100
        return self.clock

    def write(self, name, text):
        p = os.path.join(self.d, name)
        with open(p, "w") as f:
            f.write(text)
        t = self.tick()
        os.utime(p, (t, t))

    def stamp_cache(self):
        """files written by the last operation get the logical time of that operation"""
        t = self.tick()
        for fn in os.listdir(self.d):
            if fn.endswith((".pgc", ".pgec")):
                p = os.path.join(self.d, fn)
                if os.stat(p).st_mtime < 1_000_000_000 or os.stat(p).st_mtime > 1_500_000_000:
                    os.utime(p, (t, t))

    def oracle(self, cls, kw):
        d2 = tempfile.mkdtemp(prefix="verif_c12o_")
        try:
            for fn in ("root.pg", "sub.pg", "leaf.pg"):
                shutil.copy(os.path.join(self.d, fn), os.path.join(d2, fn))
            return signature(cls, kw, os.path.join(d2, "root.pg"))
        finally:
            shutil.rmtree(d2, ignore_errors=True)

    def close(self):
        shutil.rmtree(self.d, ignore_errors=True)


def apply(world, op):
    """returns (observed, expected) for build operations, None otherwise"""
    root = os.path.join(world.d, "root.pg")
    if op in BUILDS:
        cls, kw = BUILDS[op]
        got = signature(cls, kw, root)
        world.stamp_cache()
        return got, world.oracle(cls, kw)
    if op == "edit_root":
        world.rv = min(world.rv + 1, len(ROOT_V) - 1)
        world.write("root.pg", ROOT_V[world.rv])
    elif op == "edit_sub":
        world.sv = min(world.sv + 1, len(SUB_V) - 1)
        world.write("sub.pg", SUB_V[world.sv])
    elif op == "edit_leaf":
        world.lv = min(world.lv + 1, len(LEAF_V) - 1)
        world.write("leaf.pg", LEAF_V[world.lv])
    elif op == "touch_leaf":
        t = world.tick()
        os.utime(os.path.join(world.d, "leaf.pg"), (t, t))
    elif op == "touch_root":
        t = world.tick()
        os.utime(root, (t, t))
    elif op == "compile":
        from parglare.cli import compile_get_grammar_table
        with contextlib.redirect_stdout(io.StringIO()):
            try:
                compile_get_grammar_table(root, False, False, False, False)
            except SystemExit:
                pass
        world.stamp_cache()
    return None


def history_worker(args):
    pid, hist, params = args
    res = {"evaluations": 0, "nontrivial": 0, "violations": [], "samples": [], "counters": {}}
    w = World()
    try:
        for i, op in enumerate(hist):
            r = apply(w, op)
            if r is None:
                continue
            res["evaluations"] += 1
            if i > 0:
                res["nontrivial"] += 1
            got, exp = r
            if got != exp:
                diff = next((a for a, b in zip(got, exp) if a != b), None) if isinstance(got, tuple) and got and \
                    isinstance(got[0], tuple) and isinstance(exp[0], tuple) else (got, exp)
                res["violations"].append(("cache.transparent_after_history", {"history": list(hist[:i + 1])},
                                          {"first_difference_observed": repr(diff)[:300],
                                           "expected_like_no_cache": repr(exp)[:200] if not isinstance(exp[0], tuple) else "see replay"},
                                          {"family": "generic", "module": "vlib.monitors.cachemon", "function": "replay_history",
                                           "hist": list(hist), "params": params}))
                break
    finally:
        w.close()
    if not res["samples"]:
        res["samples"].append({"history": list(hist)})
    return res


def replay_history(case, key):
    return history_worker(("C12", tuple(key["history"]), case["params"]))


def crash_worker(args):
    pid, (build, stride), params = args
    res = {"evaluations": 0, "nontrivial": 0, "violations": [], "samples": [], "counters": {}}
    w = World()
    try:
        cls, kw = BUILDS[build]
        signature(cls, kw, os.path.join(w.d, "root.pg"))
        pgc = os.path.join(w.d, "root.pgc")
        data = open(pgc, "rb").read()
        exp = w.oracle(cls, kw)
        for n in list(range(0, len(data), stride)) + [len(data) - 1]:
            with open(pgc, "wb") as f:
                f.write(data[:n])
            t = w.tick()
            os.utime(pgc, (t, t))
            res["evaluations"] += 1
            res["nontrivial"] += 1
            got = signature(cls, kw, os.path.join(w.d, "root.pg"))
            if got != exp:
                res["violations"].append(("cache.incomplete_file_is_ignored", {"build": build, "bytes_kept": n, "of": len(data)},
                                          {"observed": repr(got)[:200]},
                                          {"family": "generic", "module": "vlib.monitors.cachemon", "function": "replay_crash",
                                           "build": build, "stride": stride, "params": params}))
        res["samples"].append({"build": build, "pgc_bytes": len(data)})
    finally:
        w.close()
    return res


def replay_crash(case, key):
    return crash_worker(("C12", (case["build"], case["stride"]), case["params"]))


def roundtrip_worker(args):
    pid, prods, params = args
    from parglare.closure import LR_0, LR_1
    from parglare.tables import create_table
    from parglare.tables.persist import table_from_serializable, table_to_serializable
    from vlib.scope import grammar_text
    res = {"evaluations": 0, "nontrivial": 0, "violations": [], "samples": [], "counters": {}}
    text = grammar_text(prods)
    g = Grammar.from_string(text)

    def desc(t):
        out = []
        for s in t.states:
            out.append((s.state_id, s.symbol.fqn,
                        [(k.fqn, [(a.action, a.state.state_id if a.state is not None else None,
                                   a.prod.prod_id if a.prod is not None else None) for a in v]) for k, v in s.actions.items()],
                        [(k.fqn, v.state_id) for k, v in s.gotos.items()], list(s.finish_flags),
                        sorted(x.fqn for x in s.dynamic)))
        confl = [(c.state.state_id, c.term.fqn, [p.prod_id for p in c.productions]) for c in t.sr_conflicts] + \
                [("rr", c.state.state_id, c.term.fqn, [p.prod_id for p in c.productions]) for c in t.rr_conflicts]
        return out, confl
    for name, kw in (("LALR", dict(itemset_type=LR_1, prefer_shifts=False, prefer_shifts_over_empty=False)),
                     ("SLR", dict(itemset_type=LR_0)), ("LALR-nolex", dict(itemset_type=LR_1, lexical_disambiguation=False))):
        try:
            with contextlib.redirect_stdout(io.StringIO()):
                t1 = create_table(g, **kw)
        except Exception:  # noqa
            continue
        res["evaluations"] += 1
        res["nontrivial"] += 1
        s1 = json.dumps(table_to_serializable(t1), sort_keys=True)
        t2 = table_from_serializable(json.loads(s1), g)
        s2 = json.dumps(table_to_serializable(t2), sort_keys=True)
        if desc(t1) != desc(t2):
            res["violations"].append(("cache.save_load_preserves_table", {"grammar": text, "table": name}, {},
                                      {"family": "generic", "module": "vlib.monitors.cachemon", "function": "replay_roundtrip",
                                       "prods": prods, "params": params}))
        if s1 != s2:
            res["violations"].append(("cache.save_again_is_byte_identical", {"grammar": text, "table": name},
                                      {"bytes": [len(s1), len(s2)]},
                                      {"family": "generic", "module": "vlib.monitors.cachemon", "function": "replay_roundtrip",
                                       "prods": prods, "params": params}))
    return res


def replay_roundtrip(case, key):
    return roundtrip_worker(("C12", tuple((l, tuple(r)) for l, r in case["prods"]), case["params"]))
