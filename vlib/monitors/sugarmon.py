"""Bounded stand-in for C13: sugared grammars against their documented expansion."""
import itertools

import parglare
from parglare import GLRParser, Grammar, Parser
from parglare.exceptions import RRConflicts, SRConflicts

from vlib.monitors.actmon import freeze
from vlib.monitors.common import exc_str, outcome
from vlib.spec import sppf, sugar

a, b = ("t", "a"), ("t", "b")
A, B = ("n", "A"), ("n", "B")


def rep(e, op, sep=None, greedy=False):
    return ("rep", e, op, sep, greedy)


def grp(*alts):
    return ("grp", [list(s) for s in alts])


RULE_A = ("A", [[a], [b, a]])
RULE_B = ("B", [[b], [b, b]])

SHAPES = []
for x, y in ((a, b), (b, a)):
    for op in "?*+":
        SHAPES.append([("S", [[rep(x, op), y]])])
        SHAPES.append([("S", [[y, rep(x, op)]])])
        SHAPES.append([("S", [[rep(x, op), rep(y, op)]])])
    SHAPES.append([("S", [[rep(x, "*", "comma")]])])
    SHAPES.append([("S", [[rep(x, "+", "comma"), y]])])
    SHAPES.append([("S", [[rep(x, "*", "comma"), y]])])
    SHAPES.append([("S", [[rep(grp([x, y]), "*")]])])
    SHAPES.append([("S", [[rep(grp([x], [y, y]), "+")]])])
    SHAPES.append([("S", [[rep(grp([x, y]), "+", "comma")]])])
    SHAPES.append([("S", [[rep(grp([x, y]), "*", "comma"), x]])])
    SHAPES.append([("S", [[rep(grp([rep(x, "*"), y]), "?"), x]])])
    SHAPES.append([("S", [[grp([x, y], [y]), x]])])
    SHAPES.append([("S", [[rep(x, "+"), y, rep(x, "+")]])])
    SHAPES.append([("S", [[rep(x, "*"), y], [y, rep(x, "*"), y]])])
SHAPES += [
    [("S", [[rep(A, "+")]]), RULE_A],
    [("S", [[rep(A, "*"), b]]), RULE_A],
    [("S", [[rep(A, "*", "comma")]]), RULE_A],
    [("S", [[rep(A, "?"), rep(B, "?")]]), RULE_A, RULE_B],
    [("S", [[rep(A, "+", "comma"), B]]), RULE_A, RULE_B],
    [("S", [[A, rep(grp([B, A]), "*")]]), RULE_A, RULE_B],
    [("S", [[rep(a, "+"), B]]), ("B", [[b, rep(a, "+")], [b]])],
    [("S", [[rep(a, "*"), B]]), ("B", [[b, rep(a, "*")]])],
    # rows of cells: an element that may evaluate to an empty list
    [("S", [[rep(A, "+", "comma")]]), ("A", [[rep(a, "*")]])],
    [("S", [[rep(grp([rep(a, "*")]), "+", "comma")]])],
    # separators that are RULES, evaluating to None when their optional content is absent (dropped by position)
    [("S", [[rep(a, "+", "Sep")]]), ("Sep", [[rep(("t", ","), "?")]])],
    [("S", [[rep(A, "*", "Sep"), b]]), RULE_A, ("Sep", [[rep(("t", ","), "?")]])],
    [("S", [[rep(grp([a, b]), "+", "Sep")]]), ("Sep", [[("t", ",")], [rep(("t", ","), "?"), ("t", ",")]])],
    # a user rule whose name looks like a helper name (A_1 is what A+ expands to)
    [("S", [[rep(A, "+"), b, ("n", "A_1")]]), ("A", [[a]]), ("A_1", [[b]])],
    [("S", [[rep(A, "?"), b, ("n", "A_opt")]]), ("A", [[a]]), ("A_opt", [[b, b]])],
]
# greedy variants: the non-greedy form is ambiguous only in the extent of the repetitions
GREEDY = [
    [("S", [[rep(a, "*", None, True), rep(a, "*")]])],
    [("S", [[rep(a, "+", None, True), rep(a, "*")]])],
    [("S", [[rep(a, "?", None, True), rep(a, "*")]])],
    [("S", [[rep(a, "*", None, True), rep(a, "*", None, True), rep(a, "*")]])],
    [("S", [[rep(a, "*", None, True), b, rep(a, "*", None, True), rep(a, "*")]])],
    [("S", [[rep(a, "*", "comma", True), rep(grp([SEP := ("t", ","), a]), "*")]])] if False else
    [("S", [[rep(grp([a, b]), "*", None, True), rep(grp([a, b]), "*")]])],
    [("S", [[rep(A, "*", None, True), rep(A, "*")]]), RULE_A],
]


def sugar_worker(args):
    pid, (idx, greedy_case), params = args
    rules = (GREEDY if greedy_case else SHAPES)[idx]
    res = {"evaluations": 0, "nontrivial": 0, "violations": [], "samples": [], "counters": {}}
    text = sugar.to_text(rules)
    exp = sugar.Expansion(rules)
    cfg = exp.cfg()
    only = params.get("only")

    imported = bool(params.get("imported"))
    tmpdir = None

    def viol(mon, w, detail):
        res["violations"].append((mon, dict({"grammar": text, "input": w}, **({"imported": True} if imported else {})), detail,
                                  {"family": "generic", "module": "vlib.monitors.sugarmon", "function": "replay",
                                   "idx": idx, "greedy": greedy_case,
                                   "params": {k: v for k, v in params.items() if k != "only"}}))
    try:
        if imported:
            # the sugared rules live in an IMPORTED file; the root grammar only refers to its start rule
            import os, tempfile
            tmpdir = tempfile.mkdtemp(prefix="verif_sugar_")
            with open(os.path.join(tmpdir, "sub.pg"), "w") as fh:
                fh.write(text + "\n")
            with open(os.path.join(tmpdir, "root.pg"), "w") as fh:
                fh.write("import 'sub.pg' as m;\nRoot: m.S;\n")
            g = Grammar.from_file(os.path.join(tmpdir, "root.pg"))
        else:
            g = Grammar.from_string(text)
        glr = GLRParser(g)
        glr_ps = GLRParser(g, prefer_shifts=True)
    except Exception as e:  # noqa
        viol("sugar.grammar_loads", None, exc_str(e))
        if tmpdir:
            import shutil
            shutil.rmtree(tmpdir, ignore_errors=True)
        return res
    import contextlib, io
    try:
        with contextlib.redirect_stdout(io.StringIO()):
            lr = Parser(g)
    except (SRConflicts, RRConflicts):
        lr = None
    finally:
        if tmpdir:      # (the table cache is written next to the grammar file while the parsers are built)
            import shutil
            shutil.rmtree(tmpdir, ignore_errors=True)
    alphabet = "ab," if "," in cfg.terms else "ab"
    res["samples"].append({"sugared": text, "expanded": [f"{l} -> {' '.join(r) or 'EMPTY'}" for l, r in cfg.prods]})
    for L in range(0, params["max_len"] + 1):
        for wt in itertools.product(alphabet, repeat=L):
            w = " ".join(wt)
            if only and w != only["input"]:
                continue
            res["evaluations"] += 1
            lat = cfg.lattice(w)
            is_sentence = lat.earley()["accepted"]
            trees = lat.sentence_trees() if is_sentence else []
            if is_sentence and L >= 2:
                res["nontrivial"] += 1
            st, f = outcome(glr.parse, w)
            if st not in ("ok", "syntax"):
                viol("sugar.language_of_expansion", w, {"observed": exc_str(f)})
                continue
            if (st == "ok") != is_sentence:
                viol("sugar.language_of_expansion", w, {"expected_sentence": is_sentence, "glr": st})
                continue
            # prefer_shifts must not change the language of the documented expansion ({nops} on x*)
            st_ps, _ = outcome(glr_ps.parse, w)
            if not greedy_case and (st_ps == "ok") != is_sentence:
                viol("sugar.language_under_prefer_shifts", w, {"expected_sentence": is_sentence, "glr_prefer_shifts": st_ps})
            if not is_sentence:
                continue
            expected = {repr(freeze(sugar.interpret(t, exp))) for t in trees}
            if greedy_case:
                best = max(sugar.greedy_measure(t, exp) for t in trees)
                want = {repr(freeze(sugar.interpret(t, exp))) for t in trees if sugar.greedy_measure(t, exp) == best}
                n = sppf.count_trees(f.result)
                got = {repr(freeze(glr.call_actions(f.get_tree(i)))) for i in range(n)}
                if n != 1 or got != want:
                    viol("sugar.greedy_single_maximal_tree", w, {"trees": n, "expected": sorted(want)[:2],
                                                                 "observed": sorted(got)[:3]})
                continue
            try:
                n = sppf.count_trees(f.result)
            except sppf.Cyclic:
                continue
            got = set()
            for i in range(min(n, 50)):
                r = outcome(glr.call_actions, f.get_tree(i))
                got.add(repr(freeze(r[1])) if r[0] == "ok" else exc_str(r[1]))
            if not got <= expected:
                viol("sugar.results_of_expansion", w, {"expected_one_of": sorted(expected)[:3],
                                                       "observed": sorted(got - expected)[:2]})
            if lr is not None:
                st2, r2 = outcome(lr.parse, w)
                if st2 == "ok" and repr(freeze(r2)) not in expected:
                    viol("sugar.lr_result_of_expansion", w, {"expected_one_of": sorted(expected)[:3],
                                                             "observed": repr(freeze(r2))})
    return res


def replay(case, key):
    params = dict(case["params"])
    params["only"] = key
    return sugar_worker(("C13", (case["idx"], case["greedy"]), params))
