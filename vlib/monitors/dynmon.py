"""Bounded stand-in for C18: the dynamic disambiguation filter sees every marked decision and only
those; verdicts are respected; accept-all == no filter; precedence filter == static priorities."""
import itertools

import parglare
from parglare import REDUCE, SHIFT, GLRParser, Grammar, Parser
from parglare.exceptions import DynamicDisambiguationConflict, RRConflicts, SRConflicts

from vlib.monitors.common import exc_str, outcome
from vlib.monitors.precmon import expressions, to_shape
from vlib.spec import sppf
from vlib.spec.prec import climb

OPS = ["+", "*", "^"]
NAMES = {"+": "plus", "*": "mul", "^": "pow"}


def grammar(ops, prod_marks, term_marks, static=None, layout=False):
    alts = []
    for op in ops:
        meta = []
        if static:
            p, a = static[op]
            meta += [a, str(p)]
        if prod_marks.get(op):
            meta.append("dynamic")
        alts.append(f"E {NAMES[op]} E" + (" {" + ", ".join(meta) + "}" if meta else ""))
    alts += ["'(' E ')'", "'n'"]
    lines = ["E: " + " | ".join(alts) + ";"]
    if layout:
        lines.append("LAYOUT: LayoutItem | LAYOUT LayoutItem | EMPTY;\nLayoutItem: WS | Comment;")
    lines.append("terminals")
    for op in ops:
        lines.append(f"{NAMES[op]}: '{op}'" + (" {dynamic}" if term_marks.get(op) else "") + ";")
    if layout:
        lines.append("WS: /\\s+/;\nComment: /\\/\\/.*/;")
    return "\n".join(lines)


class Recorder:
    def __init__(self, base):
        self.base = base
        self.calls = []

    def __call__(self, context, from_state, to_state, action, production, subresults):
        verdict = self.base(context, from_state, to_state, action, production, subresults)
        self.calls.append((action, getattr(to_state, "symbol", None), production,
                           list(subresults) if subresults is not None else None, verdict,
                           from_state is None and to_state is None and production is None and subresults is None))
        return verdict


def accept_all(context, from_state, to_state, action, production, subresults):
    if action is None:
        return None
    return True


def make_prec_filter(table):
    rev = {NAMES[k]: v for k, v in table.items()}

    def reduce_wins(red_op, ahead):
        if ahead not in rev:
            return True
        p1, a1 = rev[red_op]
        p2, _ = rev[ahead]
        return p1 > p2 or (p1 == p2 and a1 == "left")

    def filt(context, from_state, to_state, action, production, subresults):
        if action is None:
            return None
        if action is SHIFT:
            op = context.token.symbol
            reds = [a for a in from_state.actions.get(op, []) if a.action is REDUCE and len(a.prod.rhs) == 3
                    and a.prod.rhs[1].name in rev]
            if not reds:
                return True
            return not reduce_wins(reds[0].prod.rhs[1].name, op.name)
        if len(production.rhs) != 3 or production.rhs[1].name not in rev:
            return True
        return reduce_wins(production.rhs[1].name, context.token_ahead.symbol.name)
    return filt


def make_subresult_filter(table):
    """precedence encoded by looking at the sub-results of each marked reduction (only productions are
    marked; GLR): a reduction E -> E op E is rejected if a child alternative is a binary node that must
    not sit there under the table"""
    rev = {NAMES[k]: v for k, v in table.items()}

    def is_bin(n):
        return n.is_nonterm() and len(n.production.rhs) == 3 and n.production.rhs[1].name in rev

    def allowed(op, lefts, rights):
        p, a = rev[op]
        for r in rights:
            if is_bin(r):
                pr, _ = rev[r.production.rhs[1].name]
                if pr < p or (pr == p and a == "left"):
                    return False
        for l in lefts:
            if is_bin(l):
                pl, _ = rev[l.production.rhs[1].name]
                if pl < p or (pl == p and a == "right"):
                    return False
        return True

    def filt(context, from_state, to_state, action, production, subresults):
        if action is None:
            return None
        if len(production.rhs) != 3 or production.rhs[1].name not in rev:
            return True
        left, _, right = subresults
        return allowed(production.rhs[1].name, list(left), list(right))
    filt.allowed = allowed
    filt.is_bin = is_bin
    return filt


def protocol_report(rec, n_parses_expected=1):
    """(a) exactly one all-None initialisation call, first; (b) every other call is for a marked action
    with well-formed arguments"""
    calls = rec.calls
    if not calls:
        return "filter never called (not even the initialisation call)"
    inits = [i for i, c in enumerate(calls) if c[0] is None]
    if inits != [0]:
        return f"initialisation (all-None) calls at positions {inits} of {len(calls)} calls; expected exactly one, first"
    if not calls[0][5]:
        return "initialisation call with non-None arguments"
    for c in calls[1:]:
        action, sym, prod, sub, verdict, _ = c
        if action is SHIFT:
            if not sym.dynamic:
                return f"filter consulted for the shift of unmarked terminal {sym.name}"
        elif action is REDUCE:
            if prod is None or not prod.dynamic:
                return f"filter consulted for the reduction by unmarked production {prod}"
            if sub is None or len(sub) != len(prod.rhs):
                return f"reduction by {prod} offered with {None if sub is None else len(sub)} sub-results"
        else:
            return f"filter consulted with action {action!r}"
    return None


def count_dynamic(tree):
    """(#nodes reduced by a dynamic production, #leaves of a dynamic terminal)"""
    r = s = 0
    st = [tree]
    while st:
        n = st.pop()
        if n.is_term():
            s += 1 if n.symbol.dynamic else 0
        else:
            r += 1 if n.production.dynamic else 0
            st.extend(n.children)
    return r, s


def dyn_worker(args):
    import contextlib, io
    with contextlib.redirect_stdout(io.StringIO()):
        return _dyn_worker(args)


def _dyn_worker(args):
    pid, case, params = args
    ops, prod_marks, term_marks, table = case
    res = {"evaluations": 0, "nontrivial": 0, "violations": [], "samples": [], "counters": {}}
    text = grammar(ops, prod_marks, term_marks)
    only = params.get("only")

    def viol(mon, cfgname, w, detail):
        res["violations"].append((mon, {"grammar": text, "config": cfgname, "input": w}, detail,
                                  {"family": "generic", "module": "vlib.monitors.dynmon", "function": "replay",
                                   "case": [list(ops), prod_marks, term_marks, {k: list(v) for k, v in table.items()}],
                                   "params": {k: v for k, v in params.items() if k != "only"}}))
    g = Grammar.from_string(text)
    full = all(prod_marks.get(o) for o in ops) and all(term_marks.get(o) for o in ops)
    exprs = [t for t in expressions(list(ops), params["max_ops"])]
    # ---- accept-all == no filter, protocol on every configuration --------------------------------------
    for cls in (Parser, GLRParser):
        cfgname = f"{cls.__name__}/accept_all"
        if only and only.get("config") != cfgname:
            continue
        rec = Recorder(accept_all)
        kw = {"build_tree": True} if cls is Parser else {}
        try:
            plain = cls(g, **kw)
            pf = cls(g, dynamic_filter=rec, **kw)
        except (SRConflicts, RRConflicts):
            continue
        for toks in exprs:
            w = " ".join(toks)
            if only and w != only["input"]:
                continue
            res["evaluations"] += 1
            if len(toks) >= 5:
                res["nontrivial"] += 1
            rec.calls = []
            a = outcome(plain.parse, w)
            b = outcome(pf.parse, w)
            why = protocol_report(rec)
            if why:
                viol("dyn.filter_protocol", cfgname, w, why)
            if a[0] != b[0]:
                viol("dyn.accept_all_equals_no_filter", cfgname, w, {"no_filter": a[0], "accept_all": b[0]})
                continue
            if a[0] == "ok":
                if cls is Parser:
                    same = repr(to_shape(a[1])) == repr(to_shape(b[1]))
                    r, s = count_dynamic(b[1])
                    acc_r = sum(1 for c in rec.calls[1:] if c[0] is REDUCE and c[4])
                    acc_s = sum(1 for c in rec.calls[1:] if c[0] is SHIFT and c[4])
                    if (r, s) != (acc_r, acc_s):
                        viol("dyn.every_marked_decision_is_offered", cfgname, w,
                             {"dynamic_reductions_in_tree": r, "accepted_reduce_calls": acc_r,
                              "dynamic_terminal_leaves": s, "accepted_shift_calls": acc_s})
                else:
                    na, nb = sppf.count_trees(a[1].result), sppf.count_trees(b[1].result)
                    same = na == nb and sorted(repr(to_shape(a[1].get_tree(i))) for i in range(min(na, 30))) == \
                        sorted(repr(to_shape(b[1].get_tree(i))) for i in range(min(nb, 30)))
                if not same:
                    viol("dyn.accept_all_equals_no_filter", cfgname, w, {"results": "differ"})
    # ---- precedence-encoding filter == static priorities (needs every operator decision marked) ----------
    if full and table:
        stat = Grammar.from_string(grammar(ops, {}, {}, static=table))
        filt = make_prec_filter(table)
        for cls in (Parser, GLRParser):
            cfgname = f"{cls.__name__}/precedence_filter"
            if only and only.get("config") != cfgname:
                continue
            rec = Recorder(filt)
            kw = {"build_tree": True, "prefer_shifts": False, "prefer_shifts_over_empty": False} if cls is Parser else {}
            try:
                pf = cls(g, dynamic_filter=rec, **kw)
            except (SRConflicts, RRConflicts) as e:
                viol("dyn.conflicts_tolerated_when_dynamic", cfgname, None, type(e).__name__)
                continue
            for toks in exprs:
                w = " ".join(toks)
                if only and w != only["input"]:
                    continue
                res["evaluations"] += 1
                rec.calls = []
                exp = climb(toks, table)
                st, val = outcome(pf.parse, w)
                why = protocol_report(rec)
                if why:
                    viol("dyn.filter_protocol", cfgname, w, why)
                if st != "ok":
                    viol("dyn.precedence_filter_equals_static_priorities", cfgname, w,
                         {"expected": repr(exp), "observed": exc_str(val)})
                    continue
                if cls is Parser:
                    got, n = to_shape(val), 1
                else:
                    n = sppf.count_trees(val.result)
                    got = to_shape(val.get_tree(0))
                if n != 1 or got != exp:
                    viol("dyn.precedence_filter_equals_static_priorities", cfgname, w,
                         {"expected": repr(exp), "trees": n, "first": repr(got)})
                # a rejected reduction is not taken: no node of the result was rejected with these sub-results
    # ---- LR, only the operator TERMINALS marked: every S/R conflict is dynamic through its look-ahead; a filter
    # that vetoes every operator shift competing with a reduction leaves the (unmarked) reduction = all operators equal and left associative
    if ops and all(term_marks.get(o) for o in ops) and not any(prod_marks.get(o) for o in ops):
        cfgname = "Parser/terminals_marked_shift_veto"
        if not only or only.get("config") == cfgname:
            left = {o: (1, "left") for o in ops}
            opnames = {NAMES[o] for o in ops}

            def veto(context, from_state, to_state, action, production, subresults):
                if action is None:
                    return None
                if action is SHIFT and to_state.symbol.name in opnames:
                    # veto the shift only where a reduction competes with it (rejecting the only action of a state
                    # is outside the property: the LR driver then fails with IndexError, see DESIGN.md 0.6)
                    return not any(a.action is REDUCE for a in from_state.actions.get(to_state.symbol, []))
                return True
            rec = Recorder(veto)
            pf = None
            try:
                pf = Parser(g, dynamic_filter=rec, build_tree=True, prefer_shifts=False, prefer_shifts_over_empty=False)
            except (SRConflicts, RRConflicts) as e:
                viol("dyn.conflicts_tolerated_when_dynamic", cfgname, None, type(e).__name__)
            for toks in (exprs if pf else []):
                w = " ".join(toks)
                if only and w != only["input"]:
                    continue
                res["evaluations"] += 1
                rec.calls = []
                exp = climb(toks, left)
                st, val = outcome(pf.parse, w)
                why = protocol_report(rec)
                if why:
                    viol("dyn.filter_protocol", cfgname, w, why)
                if st != "ok" or to_shape(val) != exp:
                    viol("dyn.rejected_action_is_not_taken", cfgname, w,
                         {"expected": repr(exp), "observed": exc_str(val) if st != "ok" else repr(to_shape(val))})
    # ---- GLR, a filter that rejects every reduction of ONE marked production: that production is in no tree --------
    if ops and prod_marks.get(ops[0]):
        cfgname = "GLRParser/reject_one_production"
        if not only or only.get("config") == cfgname:
            victim = NAMES[ops[0]]

            def reject_one(context, from_state, to_state, action, production, subresults):
                if action is None:
                    return None
                return not (action is REDUCE and len(production.rhs) == 3 and production.rhs[1].name == victim)
            rec = Recorder(reject_one)
            pf = GLRParser(g, dynamic_filter=rec)
            for toks in exprs:
                w = " ".join(toks)
                if only and w != only["input"]:
                    continue
                res["evaluations"] += 1
                rec.calls = []
                st, val = outcome(pf.parse, w)
                why = protocol_report(rec)
                if why:
                    viol("dyn.filter_protocol", cfgname, w, why)
                if st == "syntax":
                    if ops[0] not in toks:
                        viol("dyn.rejected_action_is_not_taken", cfgname, w,
                             {"observed": "SyntaxError on an expression without the rejected operator"})
                    continue
                if st != "ok":
                    viol("dyn.rejected_action_is_not_taken", cfgname, w, {"observed": exc_str(val)})
                    continue
                n = sppf.count_trees(val.result)
                bad = None
                for i in range(min(n, 20)):
                    stack = [val.get_tree(i)]
                    while stack and bad is None:
                        nd = stack.pop()
                        if nd.is_nonterm():
                            if len(nd.production.rhs) == 3 and nd.production.rhs[1].name == victim:
                                bad = str(nd.production)
                            stack.extend(nd.children)
                if bad:
                    viol("dyn.rejected_action_is_not_taken", cfgname, w, {"reduction_in_result": bad})
    # ---- GLR, only productions marked: precedence by inspecting sub-results ------------------------------
    if all(prod_marks.get(o) for o in ops) and not any(term_marks.get(o) for o in ops) and table:
        cfgname = "GLRParser/subresult_precedence_filter"
        if not only or only.get("config") == cfgname:
            filt = make_subresult_filter(table)
            rec = Recorder(filt)
            pf = GLRParser(g, dynamic_filter=rec)
            for toks in exprs:
                w = " ".join(toks)
                if only and w != only["input"]:
                    continue
                res["evaluations"] += 1
                rec.calls = []
                exp = climb(toks, table)
                st, val = outcome(pf.parse, w)
                why = protocol_report(rec)
                if why:
                    viol("dyn.filter_protocol", cfgname, w, why)
                if st != "ok":
                    viol("dyn.precedence_filter_equals_static_priorities", cfgname, w,
                         {"expected": repr(exp), "observed": exc_str(val)})
                    continue
                n = sppf.count_trees(val.result)
                trees = [val.get_tree(i) for i in range(min(n, 20))]
                bad = None
                for t in trees:
                    stack = [t]
                    while stack and bad is None:
                        nd = stack.pop()
                        if nd.is_nonterm():
                            if filt.is_bin(nd):
                                l, o, r = nd.children
                                if not filt.allowed(o.symbol.name, [l], [r]):
                                    bad = str(nd.production)
                            stack.extend(nd.children)
                if bad:
                    viol("dyn.rejected_action_is_not_taken", cfgname, w, {"reduction_in_result": bad})
                if n != 1 or to_shape(trees[0]) != exp:
                    viol("dyn.precedence_filter_equals_static_priorities", cfgname, w,
                         {"expected": repr(exp), "trees": n, "first": repr(to_shape(trees[0]))})
    # ---- the filter is initialised once per parse also with a LAYOUT rule (sub-parser) -------------------
    if full:
        cfgname = "Parser+GLR/LAYOUT/accept_all"
        if not only or only.get("config") == cfgname:
            gl = Grammar.from_string(grammar(ops, prod_marks, term_marks, layout=True))
            for cls in (Parser, GLRParser):
                rec = Recorder(accept_all)
                try:
                    pf = cls(gl, dynamic_filter=rec)
                except (SRConflicts, RRConflicts):
                    continue
                for toks in exprs[:40]:
                    w = " // c\n ".join(toks) + " // e"
                    res["evaluations"] += 1
                    rec.calls = []
                    outcome(pf.parse, w)
                    why = protocol_report(rec)
                    if why:
                        viol("dyn.filter_protocol", cfgname, w, why)
                        break
    if not res["samples"]:
        res["samples"].append({"grammar": text})
    return res


def replay(case, key):
    c = case["case"]
    params = dict(case["params"])
    params["only"] = key
    return dyn_worker(("C18", (tuple(c[0]), c[1], c[2], {k: tuple(v) for k, v in c[3].items()}), params))


def cases(tier):
    out = []
    kmax = 2 if tier == "quick" else 3
    for k in range(1, kmax + 1):
        ops = tuple(OPS[:k])
        tables = []
        for prios in itertools.product((1, 2), repeat=k):
            for assocs in itertools.product(("left", "right"), repeat=2):
                t = {op: (prios[i], assocs[prios[i] - 1]) for i, op in enumerate(ops)}
                if t not in tables:
                    tables.append(t)
        for pm in itertools.product((False, True), repeat=k):
            for tm in itertools.product((False, True), repeat=k):
                prod_marks = dict(zip(ops, pm))
                term_marks = dict(zip(ops, tm))
                full = (all(pm) and all(tm)) or (all(pm) and not any(tm))
                for t in (tables if full else tables[:1]):
                    out.append((ops, prod_marks, term_marks, t))
    return out
