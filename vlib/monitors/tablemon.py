"""Bounded stand-in for the contract of create_table (C05): the a-posteriori validator of a built
table against the canonical LR(1) collection / LALR(1) look-aheads of vlib.spec.lr1, and the
termination budget."""
import contextlib
import io

import parglare.tables as PT
from parglare import Grammar
from parglare.closure import LR_0, LR_1
from parglare.tables import ACCEPT, LALR, REDUCE, SHIFT, SLR, create_table

from vlib.monitors.common import KIND_NAME, exc_str
from vlib.monitors.glrmon import used_terms
from vlib.scope import grammar_text, prod_index_map
from vlib.spec.cfg import CFG, lit
from vlib.spec.lr1 import LR1, STOP


class Diverged(Exception):
    pass


class state_budget:
    """Counts LRState constructions during create_table (one per examined transition): a divergence
    detector with a stated margin, not a wall clock."""

    def __init__(self, budget):
        self.budget = budget
        self.count = 0

    def __enter__(self):
        self.orig = PT.LRState.__init__
        me = self

        def counted(self_, *a, **kw):
            me.count += 1
            if me.count > me.budget:
                raise Diverged(me.count)
            return me.orig(self_, *a, **kw)
        PT.LRState.__init__ = counted
        return self

    def __exit__(self, *a):
        PT.LRState.__init__ = self.orig
        return False


def term_name(sym):
    n = sym.name
    return n[2:] if n.startswith("T_") else n


def pstate_core(state, pmap):
    core = set()
    for it in state.items:
        if it.is_kernel:
            pid = it.production.prod_id
            core.add((-1 if pid == 0 else pmap[pid], it.position))
    return frozenset(core)


def cell_actions(state, pmap):
    out = {}
    for sym, acts in state.actions.items():
        s = set()
        for a in acts:
            if a.action == SHIFT:
                s.add(("s",))
            elif a.action == ACCEPT:
                s.add(("a",))
            else:
                s.add(("r", pmap[a.prod.prod_id]))
        out[term_name(sym)] = s
    return out


def validate(table, lr1, pmap, kind, cfg):
    """Returns list of (monitor, detail)."""
    out = []
    states = table.states
    # ---- simulation of the canonical LR(1) automaton: nothing valid is missing ---------------------
    seen = set()
    todo = [(0, 0)]
    while todo:
        ps, cs = todo.pop()
        if (ps, cs) in seen:
            continue
        seen.add((ps, cs))
        st = states[ps]
        pact = cell_actions(st, pmap)
        for t, acts in lr1.actions(cs).items():
            missing = acts - pact.get(t, set())
            if missing:
                out.append(("table.offers_canonical_lr1_actions",
                            {"state": ps, "terminal": t, "missing": sorted(map(str, missing))}))
        for (ci, sym), cj in lr1.trans.items():
            if ci != cs:
                continue
            if sym in cfg.terms:
                tgt = None
                for s2, acts in st.actions.items():
                    if term_name(s2) == sym:
                        for a in acts:
                            if a.action == SHIFT:
                                tgt = a.state.state_id
                if tgt is not None:
                    todo.append((tgt, cj))
            else:
                tgt = None
                for s2, g in st.gotos.items():
                    if s2.name == sym:
                        tgt = g.state_id
                if tgt is None:
                    out.append(("table.offers_canonical_lr1_actions", {"state": ps, "goto_missing": sym}))
                else:
                    todo.append((tgt, cj))
        if len(out) > 5:
            return out
    # ---- precision: no reduction outside LALR(1) (LALR tables) / FOLLOW (SLR tables) ----------------
    if kind == LALR:
        lal = lr1.lalr_lookaheads()
        for st in states:
            core = pstate_core(st, pmap)
            las = lal.get(core)
            if las is None:
                continue  # unreachable core in the canonical automaton cannot happen for reduced grammars
            for sym, acts in st.actions.items():
                for a in acts:
                    if a.action == REDUCE:
                        p = pmap[a.prod.prod_id]
                        item = (p, len(cfg.prods[p][1]))
                        if term_name(sym) not in las.get(item, set()):
                            out.append(("table.reduce_within_lalr1_lookahead",
                                        {"state": st.state_id, "terminal": term_name(sym), "production": p}))
    else:
        fo = cfg.follow_sets()
        for st in states:
            for sym, acts in st.actions.items():
                for a in acts:
                    if a.action == REDUCE:
                        p = pmap[a.prod.prod_id]
                        if term_name(sym) not in fo[cfg.prods[p][0]]:
                            out.append(("table.reduce_within_follow",
                                        {"state": st.state_id, "terminal": term_name(sym), "production": p}))
    # ---- conflict bookkeeping ------------------------------------------------------------------------
    reported = {(c.state.state_id, term_name(c.term)) for c in table.sr_conflicts + table.rr_conflicts}
    multi = set()
    for st in states:
        for sym, acts in st.actions.items():
            if len(acts) > 1:
                multi.add((st.state_id, term_name(sym)))
                empties = [a for a in acts if a.action == REDUCE and len(a.prod.rhs) == 0]
                nonempty = [a for a in acts if a.action == REDUCE and len(a.prod.rhs)]
                silent = (acts[0].action == REDUCE and len(empties) == 1 and len(nonempty) == 1)
                if (st.state_id, term_name(sym)) not in reported and not silent:
                    out.append(("table.conflicts_reported_for_multi_action_cells",
                                {"state": st.state_id, "terminal": term_name(sym), "actions": len(acts)}))
    for c in reported - multi:
        out.append(("table.conflicts_only_for_multi_action_cells", {"state": c[0], "terminal": c[1]}))
    if kind == LALR and lr1.is_lalr1() and (multi or reported):
        out.append(("table.lalr1_grammar_builds_without_conflicts",
                    {"cells_with_several_actions": len(multi), "reported": len(reported)}))
    return out[:8]


def table_grammar_worker(args):
    pid, prods, params = args
    prods0 = prods
    res = {"evaluations": 0, "nontrivial": 0, "violations": [], "samples": [], "counters": {}}
    cnt = res["counters"]
    only = params.get("only")
    layout_start = bool(params.get("layout_start"))
    if layout_start:
        # start production = the LAYOUT rule: the scope grammar with S renamed to LAYOUT, behind a dummy main rule
        ren = lambda x: "LAYOUT" if x == "S" else x     # noqa
        prods = tuple((ren(l), tuple(ren(x) for x in r)) for l, r in prods)
    terms = {t: lit(t) for t in (used_terms(prods) or ["a"])}
    cfg = CFG(prods, terms)
    text = grammar_text(prods)
    pmap = prod_index_map(prods)
    if layout_start:
        text = "Main: 'z';\n" + text
        pmap = {k + 1: v for k, v in pmap.items()}
    lr1 = LR1(cfg)
    n_canon = len(lr1.states)
    nsyms = len(cfg.nts) + len(terms) + 1

    def viol(monitor, kind, detail):
        key = {"grammar": text, "tables": KIND_NAME[kind]}
        if layout_start:
            key["start_production"] = "LAYOUT"
        res["violations"].append((monitor, key, detail, {"family": "tables", "pid": pid, "prods": prods0,
                                                         "params": {k: v for k, v in params.items() if k != "only"}}))

    try:
        g = Grammar.from_string(text)
    except Exception as e:  # noqa
        res["violations"].append(("grammar.from_string", {"grammar": text}, exc_str(e)))
        return res
    skw = {"start_production": g.get_production_id("LAYOUT")} if layout_start else {}
    for kind in (LALR, SLR):
        if only and KIND_NAME[kind] != only["tables"]:
            continue
        res["evaluations"] += 1
        if n_canon > 3:
            res["nontrivial"] += 1
        budget = (4 * n_canon + 8) * nsyms
        old_rhs = g.productions[0].rhs
        try:
            with state_budget(budget) as sb, contextlib.redirect_stdout(io.StringIO()):
                table = create_table(g, itemset_type=LR_1 if kind == LALR else LR_0, prefer_shifts=False,
                                     prefer_shifts_over_empty=False, **skw)
            cnt["max_states_over_canonical_x100"] = max(cnt.get("max_states_over_canonical_x100", 0),
                                                        (100 * len(table.states)) // n_canon)
        except Diverged:
            g.productions[0].rhs = old_rhs
            # replay with a ten-fold budget before reporting
            try:
                with state_budget(10 * budget), contextlib.redirect_stdout(io.StringIO()):
                    create_table(g, itemset_type=LR_1 if kind == LALR else LR_0, prefer_shifts=False,
                                 prefer_shifts_over_empty=False, **skw)
                cnt["needed_more_than_budget_but_terminated"] = cnt.get("needed_more_than_budget_but_terminated", 0) + 1
            except Diverged:
                g.productions[0].rhs = old_rhs
                viol("table.construction_terminates", kind,
                     {"canonical_lr1_states": n_canon, "state_constructions_budget": 10 * budget})
            continue
        except Exception as e:  # noqa
            g.productions[0].rhs = old_rhs
            viol("table.construction_raises", kind, exc_str(e))
            continue
        if len(res["samples"]) < 1 and n_canon > 6:
            res["samples"].append({"grammar": text, "tables": KIND_NAME[kind], "parglare_states": len(table.states),
                                   "canonical_lr1_states": n_canon})
        for mon, detail in validate(table, lr1, pmap, kind, cfg):
            viol(mon, kind, detail)
    return res
