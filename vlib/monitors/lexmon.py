"""Bounded stand-in for C07: terminal sets x inputs, LR token choice against the documented order."""
import itertools
import re

import parglare
from parglare import GLRParser, Grammar, Parser
from parglare.exceptions import DisambiguationError

from vlib.monitors.common import exc_str, outcome
from vlib.spec import lex

STRS = ["a", "ab", "abc", "b"]
REGS = ["a+", "ab?", "[ab]+", "a"]
# a custom (Python) recogniser: ranks like a regex recogniser in the documented order; it matches b+
CUSTOMS = ["b+"]
POOL = [("str", s) for s in STRS] + [("regex", r) for r in REGS] + [("custom", r) for r in CUSTOMS]


def term_decl(i, kind, body, prio, prefer, mark):
    meta = []
    if prio != 10:
        meta.append(str(prio))
    if prefer:
        meta.append("prefer")
    if mark:
        meta.append(mark)
    b = f"'{body}'" if kind == "str" else (f"/{body}/" if kind == "regex" else "")
    return f"T{i}: {b}" + (" {" + ", ".join(meta) + "}" if meta else "") + ";"


def matcher(kind, body, ignore_case, keyword=False):
    if kind == "str" and keyword and re.fullmatch(r"\w+", body):
        # grammar with KEYWORD: /\w+/ -- the string terminal matches only as a whole word
        def kw(t, p, n=len(body)):
            seg = t[p:p + n]
            if not (seg == body or (ignore_case and seg.lower() == body.lower())):
                return None
            if p > 0 and re.match(r"\w", t[p - 1]):
                return None
            if p + n < len(t) and re.match(r"\w", t[p + n]):
                return None
            return seg
        return kw
    if kind == "str":
        if ignore_case:
            return lambda t, p: body if t[p:p + len(body)].lower() == body.lower() else None
        return lambda t, p: body if t[p:p + len(body)] == body else None
    r = re.compile(body, re.IGNORECASE if ignore_case else 0)

    def m(t, p):
        mm = r.match(t, p)
        return mm.group() if mm and mm.end() > p else None
    return m


def lex_worker(args):
    pid, case, params = args
    cands, shape, ignore_case = case[:3]
    keyword = len(case) > 3 and bool(case[3])
    res = {"evaluations": 0, "nontrivial": 0, "violations": [], "samples": [], "counters": {}}
    n = len(cands)
    decls = [term_decl(i, *c) for i, c in enumerate(cands)]
    if shape == "flat":
        rule = "S: " + " | ".join(f"T{i}" for i in range(n)) + ";"
        expected = list(range(n))
        prefix = ""
    else:
        # after the prefix 'x' only T0..T(n-2) are expected; T(n-1) is expected only at the start
        rule = "S: " + " | ".join(f"X T{i}" for i in range(n - 1)) + f" | T{n - 1};"
        decls.append("X: 'x';")
        expected = list(range(n - 1))
        prefix = "x"
    text = rule + "\nterminals\n" + "\n".join(decls) + ("\nKEYWORD: /\\w+/;" if keyword else "")
    only = params.get("only")

    def viol(mon, inp, detail):
        res["violations"].append((mon, {"grammar": text, "input": inp, "ignore_case": ignore_case}, detail,
                                  {"family": "generic", "module": "vlib.monitors.lexmon", "function": "replay",
                                   "case": [[list(c) for c in cands], shape, ignore_case, keyword],
                                   "params": {k: v for k, v in params.items() if k != "only"}}))
    recs = {}
    for i, c in enumerate(cands):
        if c[0] == "custom":
            rx = re.compile(c[1], re.IGNORECASE if ignore_case else 0)

            def rec(inp, pos, _rx=rx):
                mm = _rx.match(inp, pos)
                return mm.group() if mm and mm.end() > pos else None
            recs[f"T{i}"] = rec
    try:
        g = Grammar.from_string(text, ignore_case=ignore_case, recognizers=recs) if recs else \
            Grammar.from_string(text, ignore_case=ignore_case)
        lr = Parser(g, consume_input=False, build_tree=True, ws=None)
        glr = GLRParser(g, consume_input=False, ws=None)
    except Exception as e:  # noqa
        viol("lex.constructs", None, exc_str(e))
        return res
    ms = [matcher(c[0], c[1], ignore_case, keyword) for c in cands]
    alphabet = params["alphabet"] + (params["alphabet"].upper() if ignore_case else "") + ("-" if keyword else "")
    for L in range(1, params["max_len"] + 1):
        for w in itertools.product(alphabet, repeat=L):
            inp = prefix + "".join(w)
            if only and inp != only["input"]:
                continue
            res["evaluations"] += 1
            pos = len(prefix)
            M = []
            for i in expected:
                t = ms[i](inp, pos)
                if t:
                    M.append({"name": f"T{i}", "prio": cands[i][2], "kind": "str" if cands[i][0] == "str" else "regex",
                              "prefer": cands[i][3], "text": t})
            if len(M) > 1:
                res["nontrivial"] += 1
            try:
                exp = lex.choose(M)
                exp_desc = (exp["name"], len(exp["text"])) if exp else "SyntaxError"
            except lex.Ambiguous as a:
                exp_desc = "DisambiguationError"
            st, val = outcome(lr.parse, inp)
            if st == "ok":
                leaf = val.children[-1]
                got = (leaf.symbol.name, leaf.end_position - leaf.start_position)
            elif st == "syntax":
                got = "SyntaxError"
            elif isinstance(val, DisambiguationError):
                got = "DisambiguationError"
            else:
                got = exc_str(val)
            if got != exp_desc:
                viol("lex.lr_token_follows_documented_order", inp,
                     {"matching_expected_terminals": [(m["name"], m["prio"], m["kind"], m["prefer"], m["text"]) for m in M],
                      "expected": exp_desc, "observed": got})
            # GLR, lexical disambiguation off: all matches of the highest matching priority are pursued
            expg = sorted((m["name"], len(m["text"])) for m in lex.pursued_without_disambiguation(M))
            st, f = outcome(glr.parse, inp)
            if st == "ok":
                gotg = []
                for i in range(len(f)):
                    leaf = f.get_tree(i).children[-1]
                    gotg.append((leaf.symbol.name, leaf.end_position - leaf.start_position))
                gotg.sort()
            elif st == "syntax":
                gotg = []
            else:
                gotg = exc_str(f)
            if gotg != expg:
                viol("lex.glr_pursues_all_top_priority_matches", inp, {"expected": expg, "observed": gotg})
    if not res["samples"]:
        res["samples"].append({"grammar": text, "ignore_case": ignore_case})
    return res


def replay(case, key):
    c = case["case"]
    params = dict(case["params"])
    params["only"] = key
    return lex_worker(("C07", (tuple(tuple(x) for x in c[0]), c[1], c[2]) + tuple(c[3:4]), params))


def cases(tier):
    """terminal sets: 2..3 (quick) / 2..4 (thorough) distinct recognisers from the pool x priorities x
    prefer x no-op marks, both grammar shapes, ignore_case both ways (sampled deterministically)."""
    out = []
    prios = (0, 10, 15)
    kmax = 3 if tier == "quick" else 4
    idx = 0
    for k in range(2, kmax + 1):
        for combo in itertools.combinations(POOL, k):
            for pr in itertools.product(prios, repeat=k):
                if k >= 3 and len(set(pr)) == 3 and tier == "quick":
                    continue
                for prefer in itertools.product((False, True), repeat=k):
                    if sum(prefer) > 1:
                        continue
                    idx += 1
                    stride = (1 if k == 2 else 5) if tier == "quick" else (1 if k <= 3 else 11)
                    if idx % stride:
                        continue
                    marks = []
                    for (kind, _), i in zip(combo, range(k)):
                        # semantically neutral marks only: finish on strings, nofinish on regexes
                        marks.append(("finish" if kind == "str" else "nofinish") if (idx + i) % 3 == 0 else None)
                    cands = tuple((kind, body, p, pf, mk) for (kind, body), p, pf, mk in zip(combo, pr, prefer, marks))
                    shape = "flat" if idx % 2 else "prefixed"
                    if shape == "prefixed" and k < 3:
                        shape = "flat"
                    out.append((cands, shape, idx % 5 == 0))
    # grammars with a KEYWORD terminal: word-like string terminals become keyword (regex) recognisers that must
    # keep the rank of strings; one string and one regex, both declaration orders (the order decides ties between
    # equally ranked candidates), all priorities, prefer on either
    for (ks, bs), (kr, br) in itertools.product([p for p in POOL if p[0] == "str"], [p for p in POOL if p[0] == "regex"]):
        for pr in itertools.product(prios, repeat=2):
            for prefer in ((False, False), (True, False), (False, True)):
                idx += 1
                if tier == "quick" and idx % 2:
                    continue
                pair = [(ks, bs, pr[0], prefer[0], None), (kr, br, pr[1], prefer[1], None)]
                for cands in (tuple(pair), tuple(reversed(pair))):
                    out.append((cands, "flat", idx % 4 == 0, True))
    return out
