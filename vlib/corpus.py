"""Committed corpus of classic and awkward grammar shapes (beyond the exhaustive Gamma scopes), and a
deterministic pseudo-random sample of larger grammars.  The sample uses a FIXED generator seed:
VERIF_SEED never changes which cases are explored (known findings are matched by exact case)."""
import random

from vlib.spec.cfg import CFG, lit

T = tuple

CLASSIC = [
    # expression shapes
    (("S", ("S", "a", "S")), ("S", ("b",))),
    (("S", ("S", "a", "S")), ("S", ("S", "b", "S")), ("S", ("a",))),
    (("S", ("S", "S")), ("S", ("a",)), ("S", ())),
    (("S", ("a", "S", "b")), ("S", ())),
    (("S", ("A", "S")), ("S", ("b",)), ("A", ()), ("A", ("a",))),
    # LR(1) but not LALR(1): merging the two 'c' states creates a reduce/reduce conflict
    (("S", ("a", "A", "a")), ("S", ("b", "B", "a")), ("S", ("a", "B", "b")), ("S", ("b", "A", "b")),
     ("A", ("a",)), ("B", ("a",))),
    # LALR(1) but not SLR(1)
    (("S", ("A", "a")), ("S", ("b", "A", "b")), ("S", ("B", "b")), ("A", ("a",)), ("B", ("a",))),
    # construction used to diverge on this one (refused merge, state split again and again)
    (("S", ("a",)), ("S", ("a", "A")), ("A", ("S", "S", "a")), ("A", ("a",))),
    # hidden left recursion / right nullable / G8-like
    (("S", ("A", "S", "b")), ("S", ("a",)), ("A", ())),
    (("S", ("a", "S", "A")), ("S", ()), ("A", ())),
    (("S", ("a",)), ("S", ("B", "S", "b")), ("S", ("A", "S", "b")), ("B", ("A", "A")), ("A", ())),
    # nullable chains
    (("S", ("A", "B", "a")), ("A", ()), ("A", ("a",)), ("B", ()), ("B", ("b",))),
    (("S", ("A", "B")), ("A", ("a", "A")), ("A", ()), ("B", ("b", "B")), ("B", ())),
    # cyclic
    (("S", ("S",)), ("S", ("a",))),
    (("S", ("A",)), ("A", ("S",)), ("A", ("a",))),
    # three contexts for one reduction (late look-ahead propagation)
    (("S", ("a", "B", "a")), ("S", ("b", "A", "a")), ("S", ("a", "b", "A", "b")), ("A", ("a", "B")), ("B", ("b",))),
]


def classic():
    out = []
    for g in CLASSIC:
        terms = sorted({s for _, r in g for s in r if s.islower()}) or ["a"]
        c = CFG(g, {t: lit(t) for t in terms})
        assert c.is_reduced(), g
        out.append(tuple((l, tuple(r)) for l, r in g))
    return out


def random_grammars(n, n_prods=(4, 5), max_rhs=3, nts=("S", "A", "B"), ts=("a", "b"), gen_seed=20260925):
    """n distinct reduced grammars, deterministic."""
    rng = random.Random(gen_seed)
    out, seen = [], set()
    syms = ts + nts
    tries = 0
    while len(out) < n and tries < n * 200:
        tries += 1
        k = rng.choice(n_prods)
        prods = []
        for i in range(k):
            lhs = "S" if i == 0 else rng.choice(nts)
            rl = rng.choice(range(0, max_rhs + 1))
            prods.append((lhs, tuple(rng.choice(syms) for _ in range(rl))))
        prods = tuple(sorted(set(prods), key=lambda p: (nts.index(p[0]), len(p[1]), p[1])))
        if prods in seen or prods[0][0] != "S":
            continue
        used = {p[0] for p in prods}
        if any(s in nts and s not in used for p in prods for s in p[1]):
            continue
        terms = sorted({s for _, r in prods for s in r if s.islower()}) or ["a"]
        c = CFG(prods, {t: lit(t) for t in terms})
        if not c.is_reduced():
            continue
        seen.add(prods)
        out.append(prods)
    return out


def nullable_lists():
    """Adjacent nullable lists (right- and left-recursive, shared or separate) after/around an element that
    may nest the start symbol: several empty-span links appear late on one frontier.  Explored with inputs
    one token longer than the Gamma scopes."""
    out, seen = [], set()
    elems = [(("X", ("a",)),), (("X", ("a",)), ("X", ("b", "X", "S")))]
    lists = {"r": lambda n: ((n, ()), (n, ("X", n))), "l": lambda n: ((n, ()), (n, (n, "X")))}
    shapes = [("X", "L", "L"), ("L", "L"), ("L", "X", "L"), ("X", "L", "M"), ("L", "M", "X"), ("X", "L", "L", "L")]
    for el in elems:
        for shape in shapes:
            for sl in "rl":
                for sm in ("rl" if "M" in shape else "r"):
                    g = (("S", shape),) + lists[sl]("L") + (lists[sm]("M") if "M" in shape else ()) + el
                    if g in seen:
                        continue
                    seen.add(g)
                    terms = sorted({x for _, r in g for x in r if x.islower()})
                    if CFG(g, {t: lit(t) for t in terms}).is_reduced():
                        out.append(tuple((l, tuple(r)) for l, r in g))
    return out


def lookahead_chains():
    """Unit chains ending in a nullable symbol, entered in the start state under two different look-aheads and
    used again in a second context: look-aheads have to be pushed several levels deep inside one closure
    and across LALR-merged states.  Terminals a, b (followers), c (opens the second context), d (chain leaf);
    each grammar under top-down and bottom-up rule order."""
    out = []
    for depth in (1, 2, 3):
        names = ["A", "B", "C"][:depth]
        chain = [(names[i], (names[i + 1],)) for i in range(depth - 1)] + [(names[-1], ()), (names[-1], ("d",))]
        for k in range(depth):
            for f1, f2 in (("a", "b"), ("b", "a")):
                for ctx_follow in ("a", "b"):
                    top = [("S", (names[0], f1)), ("S", (names[0], f2)), ("S", ("c", names[k], ctx_follow))]
                    for order in (chain, sorted(chain, key=lambda p: -names.index(p[0]))):
                        g = tuple(top + list(order))
                        terms = sorted({x for _, r in g for x in r if x.islower()})
                        assert CFG(g, {t: lit(t) for t in terms}).is_reduced()
                        if g not in out:
                            out.append(tuple((l, tuple(r)) for l, r in g))
    return out


def split_siblings():
    """LR(1) but not LALR(1) kernels whose merge is refused, so that two sibling states with the same kernel exist; the
    siblings hold items with the dot before a non-terminal, and the context look-ahead reaches both of them late and in
    the same propagation round (x T p | y T q with T -> a E | a F d | b F | b E d, E -> e | e G, F -> e | e H).
    Several orders of the alternatives; used by the table check only (ten terminals)."""
    import itertools
    t_alts = [("a", "E"), ("a", "F", "d"), ("b", "F"), ("b", "E", "d")]
    out = []
    for s_order in ((("x", "T", "p"), ("y", "T", "q")), (("y", "T", "q"), ("x", "T", "p"))):
        for perm in list(itertools.permutations(t_alts))[::5]:
            for tail in ((("G", ("g",)), ("H", ("h",))), (("G", ("g", "G")), ("G", ("g",)), ("H", ("h",)))):
                g = [("S", s_order[0]), ("S", s_order[1])] + [("T", a) for a in perm] + \
                    [("E", ("e",)), ("E", ("e", "G")), ("F", ("e",)), ("F", ("e", "H"))] + list(tail)
                g = tuple((l, tuple(r)) for l, r in g)
                terms = sorted({x for _, r in g for x in r if x.islower()})
                assert CFG(g, {t: lit(t) for t in terms}).is_reduced()
                out.append(g)
    return out


# ---- rule-order dimension ----------------------------------------------------------------------------
# Fixpoint computations over the grammar (FIRST, FOLLOW, look-ahead propagation) iterate over rules in
# declaration order; the exhaustive Gamma scopes fix that order, so a family of four-nonterminal
# grammars is explored under EVERY order of the non-start rules.
ORDER_BASES = [
    (("S", ("A", "a")), ("S", ("B", "b")), ("A", ("B",)), ("B", ("C",)), ("C", ("b",))),
    (("S", ("A", "a")), ("A", ("B",)), ("B", ("C",)), ("C", ("b",)), ("C", ())),
    (("S", ("a", "A")), ("S", ("b", "B", "a")), ("A", ("b", "B")), ("B", ("a", "C")), ("C", ("b",)), ("C", ())),
    (("S", ("A", "B", "C")), ("A", ("a",)), ("A", ()), ("B", ("b",)), ("B", ()), ("C", ("a", "b")), ("C", ())),
    (("S", ("C", "a")), ("S", ("B", "b")), ("C", ("B",)), ("B", ("A",)), ("A", ("a",)), ("A", ("A", "b"))),
]


def rule_orders():
    import itertools
    out = []
    for base in ORDER_BASES:
        nts = []
        for l, _ in base:
            if l not in nts:
                nts.append(l)
        rest = [n for n in nts if n != "S"]
        for perm in itertools.permutations(rest):
            order = ["S"] + list(perm)
            g = tuple(sorted(base, key=lambda p: order.index(p[0])))
            terms = sorted({x for _, r in g for x in r if x.islower()})
            assert CFG(g, {t: lit(t) for t in terms}).is_reduced()
            out.append(tuple((l, tuple(r)) for l, r in g))
    return out


# ---- error-recovery corpus: forks before the error point, several errors per input -----------------------
RECOVERY = [
    # two heads in different states at the first error; only one of them can resume
    (("S", ("A", "c", "d", "C")), ("S", ("B", "c", "e", "C")), ("A", ("a",)), ("B", ("a",)), ("C", ("k", "m"))),
    (("S", ("A", "a", "b", "C")), ("S", ("B", "a", "a", "C")), ("A", ("b",)), ("B", ("b",)), ("C", ("a", "b"))),
    (("S", ("S", "a", "S")), ("S", ("b",))),
    (("S", ("a", "S", "b")), ("S", ("a", "b"))),
    (("S", ("A", "B")), ("A", ("a", "A")), ("A", ("a",)), ("B", ("b", "B")), ("B", ("b",))),
]

# grammars run over every string up to the length bound (not only corrupted sentences) in both tiers
RECOVERY_ALL_STRINGS = [
    # two heads recover at different positions (one at the next 'a', one at the end of input): 'bxaa'
    (("S", ("B", "b")), ("S", ("A", "b", "a")), ("S", ("S", "B", "A")), ("A", ()), ("B", ("b",))),
    (("S", ()), ("S", ("a",)), ("S", ("A", "b", "S")), ("A", ("B",)), ("B", ("a", "S", "a"))),
]


def recovery_inputs(cfg, max_sentence=6, junk="x"):
    """sentences up to max_sentence, each corrupted by one or two junk insertions / substitutions"""
    import itertools
    sents = []
    alpha = sorted(cfg.terms)
    for L in range(1, max_sentence + 1):
        for w in itertools.product(alpha, repeat=L):
            w = "".join(w)
            if cfg.lattice(w).earley()["accepted"]:
                sents.append(w)
    out = []
    seen = set()
    for w in sents:
        cands = [w]
        for i in range(len(w) + 1):
            cands.append(w[:i] + junk + w[i:])
            if i < len(w):
                cands.append(w[:i] + junk + w[i + 1:])
            for j in range(i + 1, len(w) + 1):
                cands.append(w[:i] + junk + w[i:j] + junk + w[j:])
        for c in cands:
            for v in (c, " ".join(c)):
                if v not in seen:
                    seen.add(v)
                    out.append(v)
    return out
