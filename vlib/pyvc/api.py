"""pyvc API: contract registry (sidecar side), source extraction, obligation discharge, reporting.

A sidecar module (contracts/*.py) calls `classes(...)` and `contract(...)`.  Nothing is copied from
/repo by hand: every run re-reads the function's source through `ast`, records the sha256 of the
segment and generates the obligations from it.
"""
import ast
import hashlib
import importlib
import os
import subprocess
import sys
import tempfile
import time

import z3

from vlib import framework as fw
from vlib.pyvc import engine as E
from vlib.pyvc import types as T
from vlib.pyvc.types import ClassInfo, ClassTable, parse as ty

REPO = fw.REPO


class Contract:
    def __init__(self, name, params, returns=None, requires=(), ensures=(), raises=None, modifies=(),
                 loops=None, globals=None, callees=None, opaque=None, locals=None, properties=(),
                 defaults=None, ghost_end=(), eq_overrides=None, self_exact_class=None, module_of=None, class_views=None,
                 str_total=None, allow_unannotated_loops=False, check_termination=True, block=None,
                 replay=None, inline_ctors=(), note=None, trusted=False, canaries=None, macros=None,
                 ghost_pre=(), preds=None, ensures_internal=(), ghost_at=None,
                 raises_may=None, ufuns=None, wired=True):
        self.name = name
        self.params = {k: ty(v) for k, v in params.items()}
        self.returns = ty(returns) if returns else None
        self.requires = list(requires)
        self.ensures = list(ensures)
        self.raises = dict(raises or {})
        self.modifies = list(modifies) if modifies is not None else None
        self.loops = dict(loops or {})
        self.globals = dict(globals or {})
        self.callees = dict(callees or {})
        self.opaque = dict(opaque or {})
        self.locals = {k: ty(v) for k, v in (locals or {}).items()}
        self.properties = tuple(properties)
        self.defaults = dict(defaults or {})
        self.ghost_end = list(ghost_end)
        self.eq_overrides = dict(eq_overrides or {})
        self.self_exact_class = self_exact_class
        self.class_views = class_views or {}
        self.module_of = dict(module_of or {})
        self.str_total = dict(str_total or {})
        self.allow_unannotated_loops = allow_unannotated_loops
        self.check_termination = check_termination
        self.block = block
        self.replay = replay        # callable(model_inputs) -> (description, thunk) for native replay
        self.inline_ctors = set(inline_ctors)
        self.note = note
        self.trusted = trusted      # contract assumed, body not verified (listed as an assumption)
        self.macros = dict(macros or {})
        self.preds = dict(preds or {})
        self.raises_may = dict(raises_may or {})
        self.ufuns = dict(ufuns or {})
        self.wired = wired   # False: an attempt that is not part of any check (not locked, not claimed)
        self.ghost_at = dict(ghost_at or {})
        self.ensures_internal = list(ensures_internal)
        self.ghost_pre = list(ghost_pre)
        self.canaries = canaries    # list of (label, {"ensures": [...]} ) deliberately false variants
        parts = name.split(".")
        # parglare.trees.Tree.__init__ -> module parglare.trees, class Tree
        self.owner_class = None
        self.module = None
        self.path = None

    def class_module(self, cls):
        return self.module_of.get(cls) or CLASS_MODULE.get(cls) or self.module


REG = {}
CLASSES = ClassTable()
CLASS_MODULE = {}


def classes(module, **defs):
    """classes('parglare.trees', Node=dict(bases=(), fields={...}, proxies='context', ...), ...)"""
    for name, d in defs.items():
        CLASSES.add(ClassInfo(name, **d))
        CLASS_MODULE[name] = module


def contract(name, **kw):
    c = Contract(name, **kw)
    REG[name] = c
    return c


# ------------------------------------------------------------------------------------------------
# source extraction
# ------------------------------------------------------------------------------------------------
_src_cache = {}


def module_file(module):
    return os.path.join(REPO, *module.split(".")) + ".py" if not os.path.isdir(
        os.path.join(REPO, *module.split("."))) else os.path.join(REPO, *module.split("."), "__init__.py")


def locate(name):
    """qualified name -> (module, file, FunctionDef, owner class or None).  The module is the longest
    prefix that is a file under /repo; the rest is a path of nested class / def names."""
    parts = name.split("@")[0].split(".")   # "qualified.name@variant": several contracts for one function
    for cut in range(len(parts) - 1, 0, -1):
        mod = ".".join(parts[:cut])
        f = module_file(mod)
        if os.path.exists(f):
            break
    else:
        raise LookupError(name)
    if f not in _src_cache:
        src = open(f).read()
        _src_cache[f] = (src, ast.parse(src))
    src, tree = _src_cache[f]
    node = tree
    owner = None
    for p in parts[cut:]:
        found = None
        for ch in ast.iter_child_nodes(node) if not isinstance(node, ast.Module) else node.body:
            if isinstance(ch, (ast.FunctionDef, ast.ClassDef)) and ch.name == p:
                found = ch
                break
        if found is None and isinstance(node, ast.FunctionDef):
            for ch in ast.walk(node):
                if isinstance(ch, ast.FunctionDef) and ch.name == p and ch is not node:
                    found = ch
                    break
        if found is None:
            raise LookupError(f"{name}: {p} not found in {f}")
        if isinstance(found, ast.ClassDef):
            owner = found.name
        node = found
    if not isinstance(node, ast.FunctionDef):
        raise LookupError(f"{name} is not a function")
    seg = ast.get_source_segment(src, node)
    return mod, f, node, owner, seg


def extract_block(fdef, c, seg):
    """P-block: a statement of a large function, selected by a structural anchor (the unparsed statement
    starts with c.block['anchor']).  The block's free variables are the contract's params (typed by the
    sidecar); what is known about them at block entry is the contract's `requires` -- an ASSUMED entry
    condition (it is not proved from the code before the block), listed as an assumption."""
    anchor = c.block["anchor"]
    hit = None
    for n in ast.walk(fdef):
        if isinstance(n, ast.stmt) and n is not fdef:
            try:
                if ast.unparse(n).lstrip().startswith(anchor):
                    hit = n
                    break
            except Exception:  # noqa
                pass
    if hit is None:
        raise LookupError(f"block anchor {anchor!r} not found in {c.name}")
    stmts = [hit]
    until = c.block.get("until")
    if until:
        # a run of consecutive statements: from the anchored one up to (not including) the one starting with `until`
        body = None
        for n in ast.walk(fdef):
            for fld in ("body", "orelse", "finalbody"):
                lst = getattr(n, fld, None)
                if isinstance(lst, list) and hit in lst:
                    body = lst
        if body is None:
            raise LookupError(f"block anchor {anchor!r}: enclosing statement list not found")
        i0 = body.index(hit)
        stmts, end = [], None
        for st_ in body[i0:]:
            if ast.unparse(st_).lstrip().startswith(until):
                end = st_
                break
            stmts.append(st_)
        if end is None:
            raise LookupError(f"block end {until!r} not found after {anchor!r} in {c.name}")
    args = ast.arguments(posonlyargs=[], args=[ast.arg(arg=a) for a in c.params], vararg=None, kwonlyargs=[],
                         kw_defaults=[], kwarg=None, defaults=[])
    f2 = ast.FunctionDef(name=fdef.name + "__block", args=args, body=stmts, decorator_list=[], returns=None,
                         lineno=hit.lineno, col_offset=0, end_lineno=stmts[-1].end_lineno, end_col_offset=0, type_params=[])
    ast.fix_missing_locations(f2)
    return f2, "\n".join(ast.unparse(x) for x in stmts)


# ------------------------------------------------------------------------------------------------
# discharge
# ------------------------------------------------------------------------------------------------
RLIMIT = int(os.environ.get("PYVC_RLIMIT", "40000000"))
TIMEOUT_MS = int(os.environ.get("PYVC_TIMEOUT_MS", "30000"))


def to_smt2(hyps, goal, axioms):
    s = z3.Solver()
    for _, a in axioms:
        s.add(a)
    for h in hyps:
        s.add(h)
    s.add(z3.Not(goal))
    return s.to_smt2()


def solve_smt2(args):
    """worker: (name, smt2, want_model_of[, timeout_ms]) -> dict(status, backend, time_s, model, reason).
    The query is solved in a CHILD process that is killed after the budget plus a grace period: z3's own
    timeout / rlimit are cooperative and a query was seen to spin for half an hour past them.  A killed query is
    `unknown` (hard timeout), never anything else."""
    import json
    tmo = args[3] if len(args) > 3 else TIMEOUT_MS
    t0 = time.time()
    fn = None
    try:
        with tempfile.NamedTemporaryFile("w", suffix=".json", delete=False) as f:
            json.dump(list(args), f)
            fn = f.name
        env = dict(os.environ, PYTHONPATH=fw.ROOT + os.pathsep + os.environ.get("PYTHONPATH", ""))
        p = subprocess.run([sys.executable, "-c",
                            "import json,sys; from vlib.pyvc import api; "
                            "print('\\nRESULT ' + json.dumps(api._solve_inproc(tuple(json.load(open(sys.argv[1]))))))", fn],
                           capture_output=True, text=True, timeout=tmo / 1000.0 + 45, env=env)
        line = [l for l in p.stdout.splitlines() if l.startswith("RESULT ")]
        if line:
            return json.loads(line[-1][7:])
        return {"status": "unknown", "backend": None, "time_s": round(time.time() - t0, 3), "model": None,
                "reason": f"solver child failed (exit {p.returncode}): {p.stderr.strip()[-200:]}"}
    except subprocess.TimeoutExpired:
        return {"status": "unknown", "backend": None, "time_s": round(time.time() - t0, 3), "model": None,
                "reason": f"hard timeout: solver child killed after {int(tmo / 1000 + 45)} s"}
    finally:
        if fn:
            try:
                os.unlink(fn)
            except OSError:
                pass


def _solve_inproc(args):
    name, smt2, model_names = args[:3]
    tmo = args[3] if len(args) > 3 else TIMEOUT_MS
    t0 = time.time()
    out = {"status": "unknown", "backend": None, "time_s": 0.0, "model": None, "reason": ""}
    try:
        base_rl = 0
        try:
            s0 = z3.Solver()
            s0.add(z3.Int("rl!probe") > 0)
            s0.check()
            st0 = s0.statistics()
            for i_ in range(len(st0)):
                if st0[i_][0] == "rlimit count":
                    base_rl = int(st0[i_][1])
        except Exception:
            pass
        s = z3.Solver()
        s.set("rlimit", RLIMIT)
        s.set("timeout", tmo)
        s.from_string(smt2)
        r = s.check()
        out["backend"] = "z3-" + z3.get_version_string()
        try:
            st_ = s.statistics()
            for i_ in range(len(st_)):
                if st_[i_][0] == "rlimit count":
                    out["rlimit"] = int(st_[i_][1]) - base_rl
        except Exception:
            pass
        if r == z3.unsat:
            out["status"] = "discharged"
        elif r == z3.sat:
            out["status"] = "refuted"
            m = s.model()
            md = {}
            for d in m.decls():
                if d.arity() == 0 and not d.name().startswith(("k!", "H0[")):
                    try:
                        md[d.name()] = str(m[d])[:200]
                    except Exception:
                        pass
            out["model"] = md
        else:
            out["reason"] = s.reason_unknown()
    except Exception as ex:  # noqa
        out["reason"] = f"z3 python api: {ex}"
    if out["status"] == "unknown" and tmo >= TIMEOUT_MS:
        # other back ends on the dumped query; only `unsat` is taken from them
        for label, cmd in (("cvc5-1.0.3", ["/usr/bin/cvc5", "--strings-exp", "--tlimit=15000"]),
                           ("z3-4.8.12", ["/usr/bin/z3", "-T:10"])):
            try:
                with tempfile.NamedTemporaryFile("w", suffix=".smt2", delete=False) as f:
                    f.write("(set-logic ALL)\n" + smt2 if label.startswith("cvc5") else smt2)
                    if "(check-sat)" not in smt2:
                        f.write("\n(check-sat)\n")
                    fn = f.name
                p = subprocess.run(cmd + [fn], capture_output=True, text=True, timeout=40)
                os.unlink(fn)
                ans = p.stdout.strip().splitlines()[0] if p.stdout.strip() else ""
                if ans == "unsat":
                    out["status"] = "discharged"
                    out["backend"] = label
                    break
                out["reason"] += f" | {label}: {ans or p.stderr.strip()[:80]}"
            except Exception as ex:  # noqa
                out["reason"] += f" | {label}: {ex}"
    out["time_s"] = round(time.time() - t0, 3)
    return out


# ------------------------------------------------------------------------------------------------
# verification of a set of functions
# ------------------------------------------------------------------------------------------------
def load_sidecars():
    cdir = os.path.join(fw.ROOT, "contracts")
    if cdir not in sys.path:
        sys.path.insert(0, fw.ROOT)
    for fn in sorted(os.listdir(cdir)):
        if fn.endswith(".py") and not fn.startswith("_"):
            importlib.import_module(f"contracts.{fn[:-3]}")


def generate(name, override=None):
    """Generate the obligations of one function.  Returns dict(function info, obligations (Ob list),
    engine) or raises E.Unsupported / LookupError."""
    c = REG[name]
    mod, f, fdef, owner, seg = locate(name)
    c.module, c.owner_class, c.path = mod, owner, f
    cc = c
    if override:
        import copy
        cc = copy.copy(c)
        for k, v in override.items():
            setattr(cc, k, v)
    # deterministic symbol numbering per function: the generated queries (and therefore the solver's
    # behaviour) do not depend on which other functions were processed before
    import itertools
    from vlib.pyvc import builtins as _B
    E._ctr = itertools.count()
    _B._c = itertools.count()
    if cc.block:
        fdef, seg = extract_block(fdef, cc, seg)
    eng = E.Engine(REG, CLASSES, name, fdef, cc)
    obs = eng.verify()
    info = {"name": name, "file": os.path.relpath(f, REPO), "lines": [fdef.lineno, fdef.end_lineno],
            "sha256": hashlib.sha256(seg.encode()).hexdigest()[:16], "paths": eng.n_paths}
    return {"info": info, "obs": obs, "engine": eng}


class _ObInfo:
    def __init__(self, name, kind, line):
        self.name, self.kind, self.line = name, kind, line


class _EngInfo:
    def __init__(self, pack):
        self.lemmas_used = set(pack.get("lemmas", []))


GEN_LIMIT_S = int(os.environ.get("PYVC_GEN_LIMIT_S", "600"))


def _gen_child(name, override, path):
    """child process: generate the VCs of one function (or one canary variant) and dump them as SMT-LIB text"""
    import pickle
    try:
        g = generate(name, override=override)
        eng = g["engine"]
        out = {"info": g["info"], "assumptions": sorted(eng.assumptions_used), "lemmas": sorted(getattr(eng, "lemmas_used", set())),
               "axiom_sets": [k for k, _ in eng.axioms],
               "pre_smt2": to_smt2(eng.pre_pc, z3.BoolVal(False), eng.axioms),
               "obs": [(o.name, to_smt2(o.hyps, o.goal, eng.axioms), o.kind, o.line) for o in g["obs"]]}
    except LookupError as ex:
        out = {"error": ("lookup", str(ex))}
    except E.Unsupported as ex:
        out = {"error": ("unsupported", str(ex))}
    except Exception as ex:  # noqa
        import traceback
        out = {"error": ("crash", f"{ex!r} {traceback.format_exc()[-600:]}")}
    with open(path, "wb") as f:
        pickle.dump(out, f)


def generate_all(jobs, nproc=8):
    """VC generation of several functions / canary variants, each in a CHILD process under a wall-clock watchdog
    (the engine calls z3 in-process for path feasibility; one such call was seen to spin for an hour past its
    timeout): a generation that exceeds GEN_LIMIT_S is killed and retried once, then reported as an error."""
    import multiprocessing as mp
    import pickle
    ctx = mp.get_context("fork")
    out = {}
    pending = [(n, l, ov, 0) for (n, l, ov) in jobs]
    running = []
    tmpd = tempfile.mkdtemp(prefix="pyvcgen")
    try:
        while pending or running:
            while pending and len(running) < nproc:
                n, l, ov, tries = pending.pop(0)
                path = os.path.join(tmpd, f"g{len(out)}_{len(running)}_{tries}_{abs(hash((n, l))) % 10 ** 8}.pkl")
                p = ctx.Process(target=_gen_child, args=(n, ov, path))
                p.start()
                running.append((p, time.time(), n, l, ov, tries, path))
            time.sleep(0.05)
            still = []
            for (p, t0, n, l, ov, tries, path) in running:
                if p.is_alive():
                    if time.time() - t0 > GEN_LIMIT_S:
                        p.kill()
                        p.join()
                        if tries == 0:
                            pending.append((n, l, ov, 1))
                        else:
                            out[(n, l)] = {"error": ("crash", f"VC generation exceeded {GEN_LIMIT_S} s twice (killed)")}
                    else:
                        still.append((p, t0, n, l, ov, tries, path))
                    continue
                p.join()
                try:
                    with open(path, "rb") as f:
                        out[(n, l)] = pickle.load(f)
                except Exception as ex:  # noqa
                    out[(n, l)] = {"error": ("crash", f"generation child died (exit {p.exitcode}): {ex!r}")}
            running = still
    finally:
        import shutil
        shutil.rmtree(tmpd, ignore_errors=True)
    return out


def verify(names, pid=None, canaries=False, lock=None):
    """Verify the named functions.  Returns the dict Run.add_proof expects."""
    load_sidecars()
    res = {"obligations": [], "functions": [], "assumptions": [], "violations": [], "undecided": [],
           "errors": []}
    tasks = []
    meta = []
    jobs = []
    for name in names:
        c = REG.get(name)
        if c is None:
            res["errors"].append(f"no contract registered for {name}")
            continue
        if c.trusted:
            res["assumptions"].append(f"TRUSTED contract (body not verified): {name} -- {c.note or ''}")
            continue
        jobs.append((name, None, None))
        if canaries and c.canaries:
            for label, ov in c.canaries:
                jobs.append((name, label, ov))
    packs = generate_all(jobs)
    for name in names:
        c = REG.get(name)
        if c is None or c.trusted:
            continue
        g = packs[(name, None)]
        if g.get("error"):
            kind_, msg = g["error"]
            if kind_ == "lookup":
                res["undecided"].append(f"unattached: {name}: {msg}")
            elif kind_ == "unsupported":
                res["undecided"].append(f"out of reach: {name}: {msg}")
            else:
                res["errors"].append(f"VC generation for {name}: {msg}")
                continue
            res.setdefault("unreached", []).append(name)
            continue
        eng = _EngInfo(g)
        res["functions"].append(g["info"])
        for a_ in g["assumptions"]:
            s_ = f"{name}: {a_}"
            if s_ not in res["assumptions"]:
                res["assumptions"].append(s_)
        if c.block:
            res["assumptions"].append(f"{name}: P-block '{c.block['anchor']}': entry condition ASSUMED (not proved from the "
                                      f"code before the block): " + " AND ".join(c.requires)[:600])
        for k in g["axiom_sets"]:
            s_ = f"trusted axiom set {k}"
            if s_ not in res["assumptions"]:
                res["assumptions"].append(s_)
        if not g["obs"]:
            res["errors"].append(f"vacuity: {name} generated zero obligations")
        # vacuity: the precondition must be satisfiable
        tasks.append((f"{name}#vacuity.requires-satisfiable", g["pre_smt2"], [], 4000))
        meta.append(("vacuity", name, None, eng))
        for (oname, smt2, okind, oline) in g["obs"]:
            ob = _ObInfo(oname, okind, oline)
            if okind == "reach":
                tasks.append((oname, smt2, [], 5000))
                meta.append(("reach", name, ob, eng))
                continue
            tasks.append((oname, smt2, []))
            meta.append(("ob", name, ob, eng))
        if canaries and c.canaries:
            for label, ov in c.canaries:
                gc = packs[(name, label)]
                if gc.get("error"):
                    res["errors"].append(f"canary {name}/{label}: {gc['error'][1]}")
                    continue
                ctasks = [(on, sm, [], 4000) for (on, sm, ok, ol) in gc["obs"] if ok in ("post", "raises")]
                tasks.append((f"{name}#canary.{label}", ctasks, []))
                meta.append(("canary", name, label, _EngInfo(gc)))
    used = set()
    for mt in meta:
        used |= getattr(mt[3], "lemmas_used", set())
    if used:
        from vlib.pyvc import speclib
        for lname in sorted(used):
            l = speclib.LEMMAS[lname]
            for case, (hyps, goal) in l.proof():
                tasks.append((f"lemma.{lname}.{case}", to_smt2(hyps, goal, []), []))
                meta.append(("lemma", f"lemma {lname}: {l.doc}", None, None))
    flat = []
    index = []
    for i, t in enumerate(tasks):
        if isinstance(t[1], list):
            for ct in t[1]:
                index.append((i, len(flat)))
                flat.append(ct)
        else:
            index.append((i, len(flat)))
            flat.append(t)
    # one fresh process per query: z3's resource counter is then per query and results do not depend
    # on what the worker solved before
    results = fw.pmap(solve_smt2, flat, chunksize=1)   # (each query runs in its own killable child process)
    per_task = {}
    for (ti, fi) in index:
        per_task.setdefault(ti, []).append(results[fi])
    seen_names = {}
    for i, t in enumerate(tasks):
        kind, fname, ob, eng = meta[i]
        rs = per_task[i]
        rr = [(r[1] if r[0] == "ok" else {"status": "unknown", "backend": None, "time_s": 0, "model": None,
                                          "reason": r[1][-300:]}) for r in rs]
        if kind == "vacuity":
            r = rr[0]
            # the solver must NOT be able to derive False from the precondition (with quantified
            # axioms a `sat` answer is often out of reach: `unknown` counts as "not refutable")
            if r["status"] == "discharged":
                res["errors"].append(f"vacuity: precondition of {fname} is unsatisfiable")
            res["obligations"].append({"name": t[0], "function": fname,
                                       "status": "failed" if r["status"] == "discharged" else "discharged",
                                       "detail": "precondition " + ("satisfiable (model found)" if r["status"] == "refuted"
                                                                    else "not refutable (solver: unknown)"),
                                       "backend": r["backend"], "time_s": r["time_s"], "kind": "vacuity"})
            continue
        if kind == "reach":
            r = rr[0]
            vac = r["status"] == "discharged"      # False was PROVED from the path's hypotheses
            res["obligations"].append({"name": t[0], "function": fname, "status": "failed" if vac else "discharged",
                                       "detail": "exit path " + ("has a contradictory context (every postcondition would "
                                                                 "hold vacuously)" if vac else "not refutable"),
                                       "backend": r["backend"], "time_s": r["time_s"],
                                       "kind": "vacuity (exit path reachable)", "line": ob.line})
            if vac:
                cur = next((f["sha256"] for f in res["functions"] if f["name"] == fname), None)
                locked = (lock or {}).get(fname, {}).get("sha256")
                if lock is None or locked is None or locked == cur:
                    res["errors"].append(f"vacuity: exit path of {fname} at line {ob.line} has a contradictory context")
                else:
                    res["undecided"].append(f"{t[0]}: exit path with a contradictory context on changed source")
            continue
        if kind == "canary":
            refuted = any(r["status"] == "refuted" for r in rr)
            notproved = any(r["status"] != "discharged" for r in rr)
            res["obligations"].append({"name": t[0], "function": fname,
                                       "status": "discharged" if notproved else "proved-false-variant",
                                       "detail": "false variant " + ("refuted with a model" if refuted else "not provable"),
                                       "backend": rr[0]["backend"], "time_s": round(sum(r["time_s"] for r in rr), 3),
                                       "kind": "canary (a deliberately false contract variant must not be provable)"})
            if not notproved:
                # a false variant is false of the UNCHANGED code only: on changed source a proved variant says
                # nothing about the engine (the change may have made it true)
                cur = next((f["sha256"] for f in res["functions"] if f["name"] == fname), None)
                locked = (lock or {}).get(fname, {}).get("sha256")
                if lock is None or locked is None or locked == cur:
                    res["errors"].append(f"UNSOUND ENGINE: canary {t[0]} was proved")
                else:
                    res["obligations"][-1]["detail"] = ("false variant provable on CHANGED source (not an engine "
                                                        "soundness signal)")
            continue
        r = rr[0]
        if kind == "lemma":
            res["obligations"].append({"name": t[0], "function": fname, "status": r["status"],
                                       "backend": r["backend"], "time_s": r["time_s"], "kind": "lemma-proof"})
            if r["status"] != "discharged":
                res["undecided"].append(f"{t[0]}: lemma proof case not discharged ({r['status']})")
            continue
        nm = t[0]
        n = seen_names.get(nm, 0)
        seen_names[nm] = n + 1
        if n:
            nm = f"{nm}~path{n}"
        rec = {"name": nm, "function": fname, "status": r["status"], "backend": r["backend"],
               "time_s": r["time_s"], "kind": ob.kind, "line": ob.line, "rlimit": r.get("rlimit"),
               "reason": r.get("reason", "")[:300] if r["status"] != "discharged" else ""}
        res["obligations"].append(rec)
        if r["status"] == "refuted":
            rec["model"] = r["model"]
            v = make_violation(fname, nm, ob, r, pid)
            res["violations"].append(v)
        elif r["status"] == "unknown":
            base = nm.split("~")[0]
            lk = (lock or {}).get(fname)
            info = next((f for f in res["functions"] if f["name"] == fname), {})
            # (line numbers are part of obligation names: an edit that shifts lines must not hide the match)
            if lk and _stem(base) in {_stem(x) for x in lk.get("discharged", [])} \
                    and lk.get("sha256") != info.get("sha256"):
                # passed on the unchanged tree, the function's source has changed, and the obligation
                # no longer discharges: reported as a violation with the solver's reason attached
                v = make_violation(fname, nm, ob, r, pid)
                res["violations"].append(v)
            else:
                res["undecided"].append(f"{nm}: {r['reason'][:200]}")
    if lock is not None:
        check_lock(res, lock)
    return res


LOCK_FILE = os.path.join(fw.ROOT, "contracts", "LOCK.json")


def load_lock():
    import json
    if os.path.exists(LOCK_FILE):
        return json.load(open(LOCK_FILE))
    return {}


def write_lock(names):
    """Hand tool (tools/relock.py): record, for the UNCHANGED tree, the source hash and the discharged
    obligation names of every function under contract."""
    import json
    r = verify(names)
    lock = load_lock()
    for f in r["functions"]:
        obs = sorted({o["name"].split("~")[0] for o in r["obligations"]
                      if o["function"] == f["name"] and o["status"] == "discharged" and o.get("kind") not in
                      ("vacuity", "lemma-proof")})
        lock[f["name"]] = {"sha256": f["sha256"], "discharged": obs}
    with open(LOCK_FILE, "w") as fh:
        json.dump(lock, fh, indent=1, sort_keys=True)
    return r


def make_violation(fname, obname, ob, r, pid):
    """A refuted obligation: try to replay the counter-model natively through the function's replay
    recipe; otherwise report with no-failing-input-found and the solver's model."""
    c = REG[fname]
    found = False
    detail = {"obligation": obname, "line": ob.line, "model": r["model"], "solver_status": r["status"],
              "solver_reason": r.get("reason", "")[:400], "clause": clause_text(c, obname)}
    case = {"family": "proof", "function": fname}
    if c.replay is not None:
        try:
            rep = c.replay(r["model"] or {}, obname)
            if rep is not None:
                detail["native_replay"] = rep
                found = bool(rep.get("reproduced"))
        except Exception as ex:  # noqa
            detail["native_replay_error"] = repr(ex)
    key = {"obligation": obname.split("~")[0], "function": fname}
    if found and isinstance(detail.get("native_replay"), dict) and "input" in detail["native_replay"]:
        key["input"] = detail["native_replay"]["input"]
    out = (f"status={r['status']} backend={r.get('backend')} time_s={r.get('time_s')} reason={r.get('reason', '')[:600]} "
           f"model={str(r['model'])[:1500]}")
    return fw.Violation(obname.split("~")[0], key, detail, kind="proof", solver_output=out, found_input=found, case=case)


def clause_text(c, obname):
    """the sidecar clause an obligation name refers to (post.ensuresN, pre.requiresN, loopK.invN, raises.X), if any"""
    import re
    tag = obname.split("#", 1)[1].split("~")[0].split("@")[0] if "#" in obname else ""
    try:
        m = re.fullmatch(r"post\.ensures(\d+)", tag)
        if m:
            return c.ensures[int(m.group(1))]
        m = re.fullmatch(r"loop(\d+)\.inv(\d+)\.(preserved|established|entry)", tag)
        if m:
            return c.loops[int(m.group(1))]["inv"][int(m.group(2))]
        m = re.fullmatch(r"raises\.(\w+).*", tag)
        if m and c.raises:
            return f"raises {m.group(1)} iff {c.raises.get(m.group(1))}"
    except Exception:  # noqa
        pass
    return None


def _stem(name):
    """obligation name without the path suffix and without line numbers"""
    import re
    return re.sub(r"@L\d+", "", name.split("~")[0])


def check_lock(res, lock):
    """Obligation kinds recorded in contracts/LOCK.json must still be generated (a contract that
    silently stops producing its postcondition obligation is an error, not a pass)."""
    have = {}
    for o in res["obligations"]:
        have.setdefault(o["function"], set()).add(o["name"].split("~")[0])
    shas = {f["name"]: f["sha256"] for f in res["functions"]}
    for fn, lk in lock.items():
        if fn not in have:
            continue
        for nmx in lk.get("discharged", []):
            if nmx not in have[fn]:
                # line numbers are part of obligation names: compare modulo the @L suffix and the
                # ghost counter when the function's text moved
                stem = nmx.split("@")[0].split("#ghost")[0]
                if any(h.split("@")[0].split("#ghost")[0] == stem for h in have[fn]):
                    continue
                if shas.get(fn) != lk.get("sha256"):
                    res["undecided"].append(f"unattached: obligation {nmx} is no longer generated after a "
                                            f"change of {fn} (contract anchor lost)")
                else:
                    res["errors"].append(f"lock: obligation {nmx} is no longer generated")


def replay(d):
    """bin/check --replay for a refuted proof obligation: re-run the engine on that function and
    report the obligation's status on the current tree."""
    fn = d["case"]["function"] if d.get("case") else d["key"]["function"]
    r = verify([fn])
    want = d["key"]["obligation"]
    hit = [o for o in r["obligations"] if _stem(o["name"]) == _stem(want)]
    for o in hit:
        print(f"{o['name']}: {o['status']} ({o['backend']}, {o['time_s']}s)", o.get("model", ""))
    if any(o["status"] == "refuted" for o in hit):
        print("REPRODUCED on the current tree (refuted)")
        return 1
    bad = [o for o in hit if o["status"] != "discharged"]
    lock = load_lock().get(fn.split("@")[0] if fn not in load_lock() else fn, {})
    cur = next((f["sha256"] for f in r["functions"] if f["name"] == fn), None)
    if bad and _stem(want) in {_stem(x) for x in lock.get("discharged", [])} and cur != lock.get("sha256"):
        print("REPRODUCED on the current tree: the obligation is recorded as discharged for the unchanged source "
              f"({lock.get('sha256')}) and is not discharged for the current source ({cur}): "
              + "; ".join(f"{o['name']}: {o['status']} {o.get('reason', '')[:120]}" for o in bad))
        return 1
    if not hit:
        print("not reproduced: the obligation is no longer generated (" + "; ".join(r["undecided"][:2]) + ")")
        return 0
    print("not reproduced (obligation discharged)" if not bad else
          "not reproduced: not discharged, but the source is the locked one (undecided, not a violation)")
    return 0


def attach_companion_witnesses(pres, comp):
    """If an obligation of function f is violated and f's concrete companion found a failing input,
    attach that input as the natively replayed witness.  A function whose contract no longer attaches
    (out of the engine's subset after an edit, or anchor lost) but whose clauses are all exercised by a
    silent concrete companion is decided by that bounded companion: recorded, not 'undecided'."""
    if not comp:
        return
    covers = set(comp.get("covers", []))
    failing = {vv[0].replace("companion.", "") for vv in comp.get("violations", [])}
    keep = []
    for u in pres["undecided"]:
        fn = next((f for f in pres.get("unreached", []) if f in u), None)
        short = ".".join(fn.split("@")[0].split(".")[-2:]) if fn else None
        if fn and short in covers and short not in failing:
            pres.setdefault("covered_by_bounded", []).append(u)
        else:
            keep.append(u)
    pres["undecided"] = keep
    byfn = {}
    for vv in comp.get("violations", []):
        byfn.setdefault(vv[0].replace("companion.", ""), []).append(vv)
    for v in pres["violations"]:
        fn = v.key.get("function", "")
        short = ".".join(fn.split("@")[0].split(".")[-2:])
        hits = byfn.get(short) or [h for a in comp.get("aliases", {}).get(short, []) for h in byfn.get(a, [])]
        if hits and not v.found_input:
            v.found_input = True
            v.detail["native_replay"] = {"reproduced": True, "companion": hits[0][0], "input": hits[0][1],
                                         "observed": hits[0][2]}
