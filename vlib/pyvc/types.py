"""Sidecar type language of pyvc and the class table.

    int bool str none any            scalars ('any' = opaque value, modelled as an identity)
    key                               a string used only as a LITERAL dictionary key ('action', 'state_id', ...): interned
                                      as a distinct integer, which keeps string theory out of record-like dicts
    opt[T]                            T or None
    list[T] set[T] dict[K,V]          heap-allocated mutable containers (references)
    tuple[T1,T2,...]                  immutable, fixed arity (a Python tuple of symbolic values)
    ref[Class]                        object reference; fields come from the class table

Python has no static types, so the type environment is an *assumption* of every proof; it is checked
dynamically whenever the same contracts run as monitors.
"""
import z3


class Ty:
    __slots__ = ("kind", "args", "cls")

    def __init__(self, kind, args=(), cls=None):
        self.kind = kind
        self.args = tuple(args)
        self.cls = cls

    def __repr__(self):
        if self.kind == "ref":
            return f"ref[{self.cls}]"
        if self.args:
            return f"{self.kind}[{','.join(map(repr, self.args))}]"
        return self.kind

    def __eq__(self, o):
        return isinstance(o, Ty) and (self.kind, self.args, self.cls) == (o.kind, o.args, o.cls)

    def __hash__(self):
        return hash((self.kind, self.args, self.cls))

    @property
    def is_heapref(self):
        return self.kind in ("ref", "list", "set", "dict", "any", "func")

    @property
    def optional(self):
        return self.kind == "opt"


INT, BOOL, STR, NONE, ANY = Ty("int"), Ty("bool"), Ty("str"), Ty("none"), Ty("any")


def parse(s):
    if isinstance(s, Ty):
        return s
    s = s.strip()
    if "[" not in s:
        if s in ("int", "bool", "str", "none", "any", "func", "key"):
            return Ty(s)
        raise ValueError(f"unknown type {s!r}")
    head, rest = s.split("[", 1)
    assert rest.endswith("]"), s
    inner = rest[:-1]
    if head == "ref":
        return Ty("ref", cls=inner.strip())
    parts, depth, cur = [], 0, ""
    for ch in inner:
        if ch == "[":
            depth += 1
        elif ch == "]":
            depth -= 1
        if ch == "," and depth == 0:
            parts.append(cur)
            cur = ""
        else:
            cur += ch
    parts.append(cur)
    return Ty(head, [parse(p) for p in parts])


def sort_of(ty):
    """z3 sort of the payload of a value of type ty (optionality is carried separately for scalars;
    references use 0 for None)."""
    k = ty.kind
    if k == "opt":
        return sort_of(ty.args[0])
    if k == "int":
        return z3.IntSort()
    if k == "bool":
        return z3.BoolSort()
    if k == "str":
        return z3.StringSort()
    if k == "tuple":
        raise TypeError("tuples have no single sort")
    return z3.IntSort()  # references, any, none


def sort_name(ty):
    k = ty.kind
    if k == "opt":
        return sort_name(ty.args[0])
    if k in ("int", "bool", "str", "key"):
        return k
    return "ref"


class ClassInfo:
    def __init__(self, name, bases=(), fields=None, proxies=None, truthy=None, pure_methods=None,
                 props=None):
        self.name = name
        self.bases = tuple(bases)
        self.fields = {k: parse(v) for k, v in (fields or {}).items()}
        self.proxies = proxies  # name of the field that unknown attributes are delegated to
        self.truthy = truthy    # None (reference != None), 'always', or a spec expression over self
        self.pure_methods = {k: parse(v) for k, v in (pure_methods or {}).items()}  # name -> result type
        self.props = dict(props or {})  # property name -> qualified function name with a contract


class ClassTable:
    def __init__(self):
        self.classes = {}
        self.ids = {}

    def add(self, ci):
        self.classes[ci.name] = ci
        self.ids[ci.name] = len(self.ids) + 1

    def get(self, name):
        return self.classes[name]

    def mro(self, name):
        out, todo = [], [name]
        while todo:
            n = todo.pop(0)
            if n in out or n not in self.classes:
                continue
            out.append(n)
            todo.extend(self.classes[n].bases)
        return out

    def subclasses(self, name):
        return [c for c in self.classes if name in self.mro(c)]

    def field(self, cls, fname):
        """(declaring class, type) of a field, following bases; None if absent."""
        for c in self.mro(cls):
            ci = self.classes[c]
            if fname in ci.fields:
                return c, ci.fields[fname]
        return None

    def pure_method(self, cls, mname):
        for c in self.mro(cls):
            ci = self.classes[c]
            if mname in ci.pure_methods:
                return c, ci.pure_methods[mname]
        return None

    def prop(self, cls, pname):
        for c in self.mro(cls):
            ci = self.classes[c]
            if pname in ci.props:
                return ci.props[pname]
        return None

    def proxy(self, cls):
        for c in self.mro(cls):
            if self.classes[c].proxies:
                return self.classes[c].proxies
        return None
