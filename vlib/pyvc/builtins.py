"""Modelled Python builtins, container/string methods and the spec-function library of pyvc.

Every axiom set here is a *trusted* part of the encoding; each is exercised against CPython on
enumerated inputs by the engine self-test (vlib/pyvc/selftest.py)."""
import ast

import z3

from vlib.pyvc import types as T
from vlib.pyvc.types import Ty

I, Bo, S = z3.IntSort(), z3.BoolSort(), z3.StringSort()
IntArr = z3.ArraySort(I, I)


def _const_str(node):
    return isinstance(node, ast.Constant) and isinstance(node.value, str)


class Builtins:
    def __init__(self, eng):
        self.e = eng
        self._axioms_added = set()

    # ---------------------------------------------------------------------------------------------
    # spec function library (axiomatised; lemmas with inductive proofs are in speclib.py)
    # ---------------------------------------------------------------------------------------------
    def axiom(self, key, builder):
        if key not in self._axioms_added:
            self._axioms_added.add(key)
            self.e.axioms.append((key, builder()))

    def f_psum(self):
        """psum(a, i) = a[0] + ... + a[i-1].  Only the base case is a global axiom; the recursive case is
        instantiated explicitly (lemma_psum_unfold) so that proofs do not depend on trigger luck."""
        f = z3.Function("psum", IntArr, I, I)

        def ax():
            a = z3.Const("a!ps", IntArr)
            i = z3.Int("i!ps")
            return z3.ForAll([a], f(a, 0) == 0, patterns=[f(a, 0)])
        self.axiom("psum.def", ax)
        return f

    def f_prod(self):
        """prod(a, lo, hi) = product of a[lo..hi-1] (1 when empty).  Only the base case is a global
        axiom; the recursive case  lo < hi => prod(a,lo,hi) = a[lo] * prod(a,lo+1,hi)  would be a
        matching loop, so it is instantiated explicitly (lemma_prod_unfold)."""
        f = z3.Function("prod", IntArr, I, I, I)

        def ax():
            a = z3.Const("a!pr", IntArr)
            lo, hi = z3.Ints("lo!pr hi!pr")
            return z3.ForAll([a, lo, hi], z3.Implies(lo >= hi, f(a, lo, hi) == 1), patterns=[f(a, lo, hi)])
        self.axiom("prod.def", ax)
        return f

    def name_array(self, lam):
        """z3 reasons poorly about lambda terms used as arguments of uninterpreted functions and
        rejects them in patterns: replace a lambda by a named array constant defined pointwise.
        Structurally identical lambdas (hash-consed) get the same constant."""
        if not (z3.is_quantifier(lam) and lam.is_lambda()):
            return lam
        e = self.e
        free = [b for b in e.binders if self._mentions(lam, b)]
        if free:
            # depends on variables bound by an enclosing quantifier: name it by a function of them
            key = ("fn", lam.get_id())
            hit = e.named_arrays.get(key)
            if hit is None:
                F = z3.Function(f"AF!{next(_c)}", *[b.sort() for b in free], lam.sort())
                k = z3.Const("k!na", lam.sort().domain())
                fact = z3.ForAll(free + [k], z3.Select(F(*free), k) == z3.substitute_vars(lam.body(), k),
                                 patterns=[z3.Select(F(*free), k)])
                e.named_arrays[key] = (F, fact, lam)
                hit = e.named_arrays[key]
            F, fact, _ = hit
            if not any(fact.eq(x) for x in e.st.pc[-60:]):
                e.assume(fact)
            return F(*free)
        key = lam.get_id()
        hit = e.named_arrays.get(key)
        if hit is not None:
            cst, fact, _ = hit
        else:
            cst = z3.Const(f"A!{next(_c)}", lam.sort())
            k = z3.Const("k!na", lam.sort().domain())
            body_k = z3.substitute_vars(lam.body(), k)
            pats = [z3.Select(cst, k)]
            # either side names the other: if the defining term is itself a function application it is a
            # second trigger (boolean / arithmetic / if-then-else terms are not valid patterns)
            if z3.is_app(body_k) and body_k.decl().kind() in (z3.Z3_OP_UNINTERPRETED, z3.Z3_OP_SELECT) \
                    and self._pattern_ok(body_k) and self._mentions(body_k, k):
                pats.append(body_k)
            fact = z3.ForAll([k], z3.Select(cst, k) == body_k, patterns=pats)
            e.named_arrays[key] = (cst, fact, lam)
        if not any(fact.eq(x) for x in e.st.pc[-40:]):
            e.assume(fact)
        return cst

    def _pattern_ok(self, term):
        bad = (z3.Z3_OP_ITE, z3.Z3_OP_AND, z3.Z3_OP_OR, z3.Z3_OP_NOT, z3.Z3_OP_IMPLIES, z3.Z3_OP_EQ, z3.Z3_OP_LE,
               z3.Z3_OP_LT, z3.Z3_OP_GE, z3.Z3_OP_GT, z3.Z3_OP_ADD, z3.Z3_OP_SUB, z3.Z3_OP_MUL)
        st = [term]
        while st:
            t = st.pop()
            if z3.is_quantifier(t):
                return False
            if z3.is_app(t):
                if t.decl().kind() in bad:
                    return False
                st.extend(t.children())
        return True

    def _mentions(self, term, var):
        seen = set()
        st = [term]
        vid = var.get_id()
        while st:
            t = st.pop()
            i = t.get_id()
            if i in seen:
                continue
            seen.add(i)
            if i == vid:
                return True
            if z3.is_quantifier(t):
                st.append(t.body())
            else:
                st.extend(t.children())
        return False

    # ---------------------------------------------------------------------------------------------
    # to-string
    # ---------------------------------------------------------------------------------------------
    def to_str(self, v, line, fmt=None):
        e = self.e
        k = v.ty.kind
        if fmt is not None or k not in ("str",):
            # str() of a non-string / a format spec: uninterpreted but total
            if k == "str" and fmt is None:
                return v
            if k == "int":
                f = z3.Function("str_of_int" + ("_fmt" if fmt is not None else ""), I, S)
                return e.__class__ and SVs(f(v.t))
            if k == "str":
                f = z3.Function("fmt_str", S, S)
                return SVs(f(v.t))
            if k == "opt" and v.ty.args[0].kind == "str":
                f = z3.Function("str_of_optstr", Bo, S, S)
                return SVs(f(e.is_none(v), v.t))
            if k == "opt" and v.ty.args[0].kind == "int":
                f = z3.Function("str_of_optint", Bo, I, S)
                return SVs(f(e.is_none(v), v.t))
            if k == "ref":
                cls = v.ty.cls
                q = None
                for c in e.classes.mro(cls):
                    for meth in ("__str__", "__repr__"):
                        qq = f"{e.c.class_module(c)}.{c}.{meth}"
                        if qq in e.reg:
                            q = qq
                            break
                    if q:
                        break
                if q:
                    return e.call_contract(q, [v], {}, line, hoisted=False)
                spec = e.c.str_total.get(cls)
                if spec is None:
                    from vlib.pyvc.engine import Unsupported
                    raise Unsupported(f"str() of {cls} has no contract nor a str_total declaration (line {line})")
                e.assumptions_used.add(f"str({cls}) is total: {spec}")
                f = z3.Function(f"str_of_{cls}", I, S)
                return SVs(f(v.t))
            if k in ("any", "none", "bool", "list", "tuple", "opt"):
                if k == "any":
                    e.assumptions_used.add("str() of an opaque value is total (no user __str__ that raises)")
                    f = z3.Function("str_of_any", I, S)
                    return SVs(f(v.t))
                return SVs(z3.Const(f"str!{next(_c)}", S))
        return v

    # ---------------------------------------------------------------------------------------------
    # indexing / slicing / membership
    # ---------------------------------------------------------------------------------------------
    def norm_index(self, idx, length):
        return z3.If(idx < 0, idx + length, idx)

    def index(self, base, idx, line):
        e = self.e
        from vlib.pyvc.engine import SV, Unsupported
        if base.ty.kind == "opt":
            e.fail("TypeError", e.is_none(base), line, "none-subscript")
            base = SV(base.ty.args[0], base.t)
        k = base.ty.kind
        if k == "list":
            i = e.coerce(idx, T.INT).t
            if e.spec_mode:
                return e.list_get(base, i)   # specification subscripts are total and not normalised
            n = e.list_len(base.t)
            j = self.norm_index(i, n)
            e.fail("IndexError", z3.Or(j < 0, j >= n), line, "index")
            return e.list_get(base, j)
        if k == "str":
            i = e.coerce(idx, T.INT).t
            n = z3.Length(base.t)
            j = self.norm_index(i, n)
            e.fail("IndexError", z3.Or(j < 0, j >= n), line, "index")
            return SV(T.STR, z3.SubString(base.t, j, 1))
        if k == "tuple":
            if z3.is_int_value(idx.t):
                return base.t[idx.t.as_long()]
            raise Unsupported("symbolic tuple index")
        if k == "dict":
            kty, vty = base.ty.args
            key = e.coerce(idx, kty)
            has = z3.Select(e.dict_has(base.t, kty), key.t)
            e.fail("KeyError", z3.Not(has), line, "key")
            v = z3.Select(e.dict_val(base.t, kty, vty), key.t)
            sv = SV(vty, v)
            e.wf_ref(sv)
            if vty.kind in ("list",):
                e.assume(e.list_len(v) >= 0)
            return sv
        if k == "any":
            f = z3.Function("any_getitem", I, T.sort_of(idx.ty), I)
            e.assumptions_used.add("subscript of an opaque (non-string input) value is total")
            return SV(T.ANY, f(base.t, idx.t))
        raise Unsupported(f"subscript of {base.ty} at line {line}")

    def clamp(self, v, n, default):
        if v is None:
            return default
        if v.ty.kind == "none":
            return default
        if v.ty.kind == "opt":
            # a slice bound that is None means "default"
            i = v.t
            i = z3.If(i < 0, i + n, i)
            return z3.If(self.e.is_none(v), default, z3.If(i < 0, 0, z3.If(i > n, n, i)))
        i = self.e.coerce(v, T.INT).t
        i = z3.If(i < 0, i + n, i)
        return z3.If(i < 0, 0, z3.If(i > n, n, i))

    def slice(self, base, lo, hi, line):
        e = self.e
        from vlib.pyvc.engine import SV, Unsupported
        k = base.ty.kind
        if k == "str":
            n = z3.Length(base.t)
            a = self.clamp(lo, n, z3.IntVal(0))
            b = self.clamp(hi, n, n)
            ln = z3.If(b > a, b - a, 0)
            return SV(T.STR, z3.SubString(base.t, a, ln))
        if k == "list":
            n = e.list_len(base.t)
            a = self.clamp(lo, n, z3.IntVal(0))
            b = self.clamp(hi, n, n)
            ln = z3.If(b > a, b - a, 0)
            ety = base.ty.args[0]
            src = e.list_arr(base.t, ety)
            j = z3.Int("j!sl")
            arr = z3.Lambda([j], z3.Select(src, j + a))
            out = e.new_list(ety, ln, arr)
            out.view = (src, a, z3.If(b > a, b, a))
            return out
        if k == "any":
            e.assumptions_used.add("slicing an opaque (non-string input) value is total")
            f = z3.Function("any_slice", I, I, I, I)
            la = e.coerce(lo, T.INT).t if lo is not None else z3.IntVal(0)
            hb = e.coerce(hi, T.INT).t if hi is not None else z3.IntVal(-1)
            return SV(T.ANY, f(base.t, la, hb))
        raise Unsupported(f"slice of {base.ty} at line {line}")

    def contains(self, cont, item, line):
        e = self.e
        from vlib.pyvc.engine import SV, Unsupported
        if cont.ty.kind == "opt":
            e.fail("TypeError", e.is_none(cont), line, "none-contains")
            cont = SV(cont.ty.args[0], cont.t)
        k = cont.ty.kind
        if k == "str":
            if item.ty.kind != "str":
                e.fail("TypeError", z3.BoolVal(True), line, "str-contains-type")
                return z3.BoolVal(False)
            return z3.Contains(cont.t, item.t)
        if k == "set":
            ety = cont.ty.args[0]
            return z3.Select(e.set_arr(cont.t, ety), e.coerce(item, ety).t)
        if k == "dict":
            kty = cont.ty.args[0]
            return z3.Select(e.dict_has(cont.t, kty), e.coerce(item, kty).t)
        if k == "list":
            ety = cont.ty.args[0]
            j = z3.Int("j!in")
            arr = e.list_arr(cont.t, ety)
            return z3.Exists([j], z3.And(0 <= j, j < e.list_len(cont.t), z3.Select(arr, j) == e.coerce(item, ety).t))
        if k == "tuple":
            return z3.Or(*[e.same(x, item) for x in cont.t]) if cont.t else z3.BoolVal(False)
        raise Unsupported(f"'in' on {cont.ty} at line {line}")

    def setitem(self, base, idx, v, line):
        e = self.e
        from vlib.pyvc.engine import Unsupported
        k = base.ty.kind
        if k == "list":
            ety = base.ty.args[0]
            i = e.coerce(idx, T.INT).t
            n = e.list_len(base.t)
            j = self.norm_index(i, n)
            e.fail("IndexError", z3.Or(j < 0, j >= n), line, "index-store")
            arr = e.list_arr(base.t, ety)
            e.hwrite(f"list.elem.{T.sort_name(ety)}", base.t, z3.Store(arr, j, e.coerce(v, ety).t),
                     z3.ArraySort(I, T.sort_of(ety)))
            return
        if k == "dict":
            kty, vty = base.ty.args
            key = e.coerce(idx, kty)
            e.hwrite(f"dict.has.{T.sort_name(kty)}", base.t, z3.Store(e.dict_has(base.t, kty), key.t, True),
                     z3.ArraySort(T.sort_of(kty), Bo))
            e.hwrite(f"dict.val.{T.sort_name(kty)}.{T.sort_name(vty)}", base.t,
                     z3.Store(e.dict_val(base.t, kty, vty), key.t, e.coerce(v, vty).t),
                     z3.ArraySort(T.sort_of(kty), T.sort_of(vty)))
            return
        raise Unsupported(f"item assignment on {base.ty}")

    # ---------------------------------------------------------------------------------------------
    # list construction
    # ---------------------------------------------------------------------------------------------
    def list_display(self, items, ety=None):
        e = self.e
        from vlib.pyvc.engine import Unsupported
        if not items:
            ety = ety or T.ANY
            arr = z3.K(I, e.default_term(ety)) if T.sort_of(ety) != S else z3.K(I, z3.StringVal(""))
            return e.new_list(ety, z3.IntVal(0), arr)
        if ety is None:
            ety = items[0].ty
            for it in items[1:]:
                if it.ty != ety:
                    if {it.ty.kind, ety.kind} & {"none", "opt"}:
                        base = [x.ty for x in items if x.ty.kind not in ("none",)]
                        b0 = base[0].args[0] if base and base[0].kind == "opt" else (base[0] if base else T.ANY)
                        ety = Ty("opt", [b0])
                    elif it.ty.kind == "ref" and ety.kind == "ref":
                        pass
                    else:
                        raise Unsupported(f"heterogeneous list display {ety} / {it.ty}")
        arr = z3.K(I, e.default_term(ety))
        none = z3.K(I, z3.BoolVal(False))
        use_none = ety.kind == "opt" and not ety.args[0].is_heapref
        for i, it in enumerate(items):
            c = e.coerce(it, ety)
            arr = z3.Store(arr, i, c.t)
            if use_none:
                none = z3.Store(none, i, c.isnone if c.isnone is not None else z3.BoolVal(False))
        return e.new_list(ety, z3.IntVal(len(items)), arr, none if use_none else None)

    def list_concat(self, a, b):
        e = self.e
        ety = a.ty.args[0]
        na, nb = e.list_len(a.t), e.list_len(b.t)
        aa, ab = e.list_arr(a.t, ety), e.list_arr(b.t, b.ty.args[0])
        j = z3.Int("j!cc")
        arr = z3.Lambda([j], z3.If(j < na, z3.Select(aa, j), z3.Select(ab, j - na)))
        return e.new_list(ety, na + nb, arr)

    def str_repeat(self, s, n):
        from vlib.pyvc.engine import SV
        f = z3.Function("str_repeat", S, I, S)
        r = f(s.t, n.t)
        self.axiom("str_repeat.len", lambda: (lambda x, k: z3.ForAll(
            [x, k], z3.Length(f(x, k)) == z3.If(k > 0, k * z3.Length(x), 0), patterns=[f(x, k)]))(
            z3.Const("x!rp", S), z3.Int("k!rp")))
        return SV(T.STR, r)

    def listcomp(self, n):
        """[elt for x in src] and [elt for x in src if cond] over a list source."""
        e = self.e
        from vlib.pyvc.engine import SV, Unsupported
        if len(n.generators) != 1:
            raise Unsupported("nested comprehension")
        g = n.generators[0]
        if not isinstance(g.target, ast.Name):
            raise Unsupported("comprehension target")
        src = e.ev(g.iter)
        if src.ty.kind != "list":
            raise Unsupported(f"comprehension over {src.ty}")
        nsrc = e.list_len(src.t)
        j = z3.Int(f"j!lc{n.lineno}_{n.col_offset}")
        e.binders.append(j)
        try:
            x = e.list_get(src, j)
        finally:
            e.binders.pop()
        saved = e.bound
        e.bound = dict(saved)
        e.bound[g.target.id] = x
        saved_guards = list(e.guards)
        e.binders.append(j)
        try:
            # safety obligations of the element expression hold for every index in range
            e.guards.append(z3.And(0 <= j, j < nsrc))
            conds = [e.truthy(e.ev(c)) for c in g.ifs]
            if conds:
                e.guards.append(z3.And(*conds))
            elt = e.ev(n.elt)
        finally:
            e.binders.pop()
            e.guards[:] = saved_guards
            e.bound = saved
        # obligations generated above mention the free index j: quantify them
        self._quantify_pending(j)
        ety = elt.ty
        if not g.ifs:
            arr = z3.Lambda([j], elt.t)
            return e.new_list(ety, nsrc, arr)
        # filter: order-preserving sub-sequence, axiomatised through an index map m (position in src of
        # the k-th kept element) and its inverse inv (rank of a kept src position).  Triggers: an element
        # of the result names m(k); an element of the source names inv(j) and the result element there.
        P = z3.And(*conds)
        m = z3.Function(f"fidx!{n.lineno}_{next(_c)}", I, I)
        inv = z3.Function(f"finv!{n.lineno}_{next(_c)}", I, I)
        k, k2 = z3.Ints("k!f k2!f")
        ln = z3.Int(f"flen!{n.lineno}_{next(_c)}")
        out_arr = z3.Const(f"fout!{n.lineno}_{next(_c)}", z3.ArraySort(I, T.sort_of(elt.ty)))
        Pk = z3.substitute(P, (j, m(k)))
        elt_k = z3.substitute(elt.t, (j, m(k)))
        e.assume(z3.And(ln >= 0, ln <= nsrc))
        e.assume(z3.ForAll([k], z3.Implies(z3.And(0 <= k, k < ln),
                                           z3.And(0 <= m(k), m(k) < nsrc, Pk, z3.Select(out_arr, k) == elt_k)),
                           patterns=[z3.Select(out_arr, k)]))
        e.assume(z3.ForAll([k], z3.Implies(z3.And(0 <= k, k < ln), z3.And(0 <= m(k), m(k) < nsrc, Pk)),
                           patterns=[m(k)]))
        e.assume(z3.ForAll([k, k2], z3.Implies(z3.And(0 <= k, k < k2, k2 < ln), m(k) < m(k2)),
                           patterns=[z3.MultiPattern(m(k), m(k2))]))
        e.assume(z3.ForAll([j], z3.Implies(z3.And(0 <= j, j < nsrc, P),
                                           z3.And(0 <= inv(j), inv(j) < ln, m(inv(j)) == j,
                                                  z3.Select(out_arr, inv(j)) == elt.t)),
                           patterns=[x.t if (z3.is_app(x.t) and x.t.decl().kind() in (z3.Z3_OP_UNINTERPRETED, z3.Z3_OP_SELECT)
                                             and self._pattern_ok(x.t) and self._mentions(x.t, j)) else inv(j)]))
        out = e.new_list(ety, ln, out_arr)
        out.view = ("filter", m, inv, src, P, j)
        return out

    def _quantify_pending(self, j):
        """Obligations emitted while evaluating a comprehension body mention the bound index j free;
        free constants are universally quantified by the refutation query, which is what is wanted
        (the guard 0 <= j < n is part of their hypotheses)."""
        return

    # ---------------------------------------------------------------------------------------------
    # builtin functions
    # ---------------------------------------------------------------------------------------------
    def call_builtin(self, name, n, line):
        e = self.e
        from vlib.pyvc.engine import SV, Unsupported, lift
        m = getattr(self, "bi_" + name, None)
        if m is None:
            raise Unsupported(f"call of unknown function {name} at line {line}")
        return m(n, line)

    def args(self, n):
        return [self.e.ev(a) for a in n.args]

    def bi_len(self, n, line):
        e = self.e
        from vlib.pyvc.engine import SV, Unsupported
        (v,) = self.args(n)
        if v.ty.kind == "opt":
            e.fail("TypeError", e.is_none(v), line, "len-of-none")
            v = SV(v.ty.args[0], v.t)
        k = v.ty.kind
        if k == "str":
            return SV(T.INT, z3.Length(v.t))
        if k == "list":
            return SV(T.INT, e.list_len(v.t))
        if k == "tuple":
            return SV(T.INT, z3.IntVal(len(v.t)))
        if k == "ref":
            for c in e.classes.mro(v.ty.cls):
                q = f"{e.c.class_module(c)}.{c}.__len__"
                if q in e.reg:
                    r = e.call_contract(q, [v], {}, line, hoisted=False)
                    # CPython: len() converts the result of a user __len__ to Py_ssize_t
                    e.fail("ValueError", r.t < 0, line, "len-negative")
                    e.fail("OverflowError", r.t > z3.IntVal(2 ** 63 - 1), line, "len-fits-index")
                    return r
            pm = e.classes.pure_method(v.ty.cls, "__len__")
            if pm:
                f = z3.Function(f"{pm[0]}.__len__", I, I)
                e.assume(f(v.t) >= 0)
                return SV(T.INT, f(v.t))
        if k == "any":
            f = z3.Function("any_len", I, I)
            e.assume(f(v.t) >= 0)
            e.assumptions_used.add("len() of an opaque (non-string input) value is total and >= 0")
            return SV(T.INT, f(v.t))
        raise Unsupported(f"len of {v.ty} at line {line}")

    def bi_str(self, n, line):
        (v,) = self.args(n)
        return self.to_str(v, line)

    def bi_bool(self, n, line):
        from vlib.pyvc.engine import SV
        (v,) = self.args(n)
        return SV(T.BOOL, self.e.truthy(v))

    def bi_max(self, n, line):
        return self._minmax(n, line, True)

    def bi_min(self, n, line):
        return self._minmax(n, line, False)

    def _minmax(self, n, line, is_max):
        e = self.e
        from vlib.pyvc.engine import SV, Unsupported
        if len(n.args) >= 2:
            vs = [e.coerce(v, T.INT).t for v in self.args(n)]
            r = vs[0]
            for v in vs[1:]:
                r = z3.If(v > r, v, r) if is_max else z3.If(v < r, v, r)
            return SV(T.INT, r)
        a = n.args[0]
        if isinstance(a, ast.GeneratorExp):
            lst = self.listcomp(ast.ListComp(elt=a.elt, generators=a.generators, lineno=a.lineno,
                                             col_offset=a.col_offset))
        else:
            lst = e.ev(a)
        if lst.ty.kind != "list" or lst.ty.args[0].kind != "int":
            raise Unsupported("max/min over a non int list")
        ln = e.list_len(lst.t)
        e.fail("ValueError", ln <= 0, line, "max-of-empty")
        arr = e.list_arr(lst.t, T.INT)
        r = z3.Int(f"{'max' if is_max else 'min'}!{next(_c)}")
        k = z3.Int("k!mm")
        wit = z3.Int(f"mmw!{next(_c)}")
        e.assume(z3.And(0 <= wit, wit < ln, arr[wit] == r))
        e.assume(z3.ForAll([k], z3.Implies(z3.And(0 <= k, k < ln), arr[k] <= r if is_max else arr[k] >= r)))
        return SV(T.INT, r)

    def bi_isinstance(self, n, line):
        e = self.e
        from vlib.pyvc.engine import SV, Unsupported
        v = e.ev(n.args[0])
        tn = n.args[1]
        names = [tn.id] if isinstance(tn, ast.Name) else [x.id for x in tn.elts]
        k = v.ty.kind
        res = []
        for nm in names:
            if nm == "str":
                if k == "any":
                    f = z3.Function("any_is_str", I, Bo)
                    res.append(f(v.t))
                else:
                    res.append(z3.BoolVal(k == "str") if k != "opt" else z3.And(z3.Not(e.is_none(v)), z3.BoolVal(
                        v.ty.args[0].kind == "str")))
            elif nm == "bool":
                if k == "any":
                    f = z3.Function("any_is_bool", I, Bo)
                    res.append(f(v.t))
                else:
                    res.append(z3.BoolVal(k == "bool"))
            elif nm == "int":
                res.append(z3.BoolVal(k in ("int", "bool")))
            elif nm == "list":
                if k == "any":
                    f = z3.Function("any_is_list", I, Bo)
                    res.append(f(v.t))
                else:
                    res.append(z3.BoolVal(k == "list"))
            elif nm in e.classes.classes:
                if k in ("ref", "any") or (k == "opt" and v.ty.args[0].kind == "ref"):
                    tag = e.harr("tag", I, I)
                    ids = [e.classes.ids[c] for c in e.classes.subclasses(nm)]
                    res.append(z3.And(v.t != 0, z3.Or(*[z3.Select(tag, v.t) == i for i in ids])))
                else:
                    res.append(z3.BoolVal(False))
            else:
                raise Unsupported(f"isinstance against {nm}")
        return SV(T.BOOL, z3.Or(*res) if len(res) > 1 else res[0])

    def bi_list(self, n, line):
        e = self.e
        from vlib.pyvc.engine import Unsupported
        if not n.args:
            return self.list_display([], None)
        (v,) = self.args(n)
        if v.ty.kind == "list":
            ety = v.ty.args[0]
            out = e.new_list(ety, e.list_len(v.t), e.list_arr(v.t, ety))
            return out
        raise Unsupported(f"list() of {v.ty}")

    def bi_set(self, n, line):
        e = self.e
        from vlib.pyvc.engine import SV, Unsupported
        ety = getattr(n, "_ety", None)
        if not n.args:
            ety = ety or T.ANY
            r = e.new_ref("set")
            e.set_write(r, ety, z3.K(T.sort_of(ety), z3.BoolVal(False)))
            return SV(Ty("set", [ety]), r)
        (v,) = self.args(n)
        if v.ty.kind == "set":
            ety = v.ty.args[0]
            r = e.new_ref("set")
            e.set_write(r, ety, e.set_arr(v.t, ety))
            return SV(Ty("set", [ety]), r)
        if v.ty.kind == "list":
            ety = v.ty.args[0]
            r = e.new_ref("set")
            x = z3.Const("x!sl", T.sort_of(ety))
            j = z3.Int("j!sl2")
            arr = e.list_arr(v.t, ety)
            e.set_write(r, ety, z3.Lambda([x], z3.Exists([j], z3.And(0 <= j, j < e.list_len(v.t), arr[j] == x))))
            return SV(Ty("set", [ety]), r)
        raise Unsupported(f"set() of {v.ty}")

    def bi_dict(self, n, line):
        """dict(d): a new dict with the keys and values of d"""
        e = self.e
        from vlib.pyvc.engine import SV, Unsupported
        if len(n.args) != 1:
            raise Unsupported("dict() with other than one argument")
        (v,) = self.args(n)
        if v.ty.kind == "opt":
            e.deref_check(v, line)
            v = SV(v.ty.args[0], v.t)
        if v.ty.kind != "dict":
            raise Unsupported(f"dict() of {v.ty}")
        kty, vty = v.ty.args
        r = e.new_ref("dict")
        e.hwrite(f"dict.has.{T.sort_name(kty)}", r, e.dict_has(v.t, kty), z3.ArraySort(T.sort_of(kty), z3.BoolSort()))
        e.hwrite(f"dict.val.{T.sort_name(kty)}.{T.sort_name(vty)}", r, e.dict_val(v.t, kty, vty),
                 z3.ArraySort(T.sort_of(kty), T.sort_of(vty)))
        return SV(v.ty, r)

    def bi_forall_str(self, n, line):
        """forall_str(lambda k: P): k ranges over all strings (spec only)"""
        from vlib.pyvc.engine import SV
        e = self.e
        self._spec_only("forall_str")
        lam = n.args[-1]
        v = z3.String(f"{lam.args.args[0].arg}!s{next(_c)}")
        saved = e.bound
        e.bound = dict(saved)
        e.bound[lam.args.args[0].arg] = SV(T.STR, v)
        e._unfolding += 1
        e.binders.append(v)
        try:
            body = e.truthy(e.ev(lam.body))
        finally:
            e.binders.pop()
            e._unfolding -= 1
            e.bound = saved
        return SV(T.BOOL, z3.ForAll([v], body))

    def bi_reduce(self, n, line):
        """reduce(lambda x, y: x * y, <int list | slice | generator>, 1)  ==  product."""
        e = self.e
        from vlib.pyvc.engine import SV, Unsupported
        lam, seq, init = n.args[0], n.args[1], (n.args[2] if len(n.args) > 2 else None)
        ok = (isinstance(lam, ast.Lambda) and len(lam.args.args) == 2 and isinstance(lam.body, ast.BinOp)
              and isinstance(lam.body.op, ast.Mult)
              and {lam.body.left.id, lam.body.right.id} == {a.arg for a in lam.args.args}
              and init is not None and isinstance(init, ast.Constant) and init.value == 1)
        if not ok:
            raise Unsupported("reduce outside the product idiom")
        prod = self.f_prod()
        if isinstance(seq, ast.GeneratorExp):
            lst = self.listcomp(ast.ListComp(elt=seq.elt, generators=seq.generators, lineno=seq.lineno,
                                             col_offset=seq.col_offset))
        elif isinstance(seq, ast.Subscript) and isinstance(seq.slice, ast.Slice):
            base = e.ev(seq.value)
            if base.ty.kind != "list":
                raise Unsupported("reduce over slice of non-list")
            nlen = e.list_len(base.t)
            lo = self.clamp(e.ev(seq.slice.lower) if seq.slice.lower is not None else None, nlen, z3.IntVal(0))
            hi = self.clamp(e.ev(seq.slice.upper) if seq.slice.upper is not None else None, nlen, nlen)
            return SV(T.INT, prod(e.list_arr(base.t, T.INT), lo, hi))
        else:
            lst = e.ev(seq)
        if lst.ty.kind != "list" or T.sort_of(lst.ty.args[0]) != I:
            raise Unsupported("reduce over non-int list")
        return SV(T.INT, prod(e.list_arr(lst.t, T.INT), z3.IntVal(0), e.list_len(lst.t)))

    def bi_getattr(self, n, line):
        """getattr(obj, name) with a computed name: an opaque value; may raise AttributeError."""
        from vlib.pyvc.engine import SV
        e = self.e
        self.args(n)
        e.fail("AttributeError", z3.Const(f"noattr!{next(_c)}", Bo), line, "getattr")
        e.assumptions_used.add("getattr(obj, <computed name>) is an opaque value or AttributeError")
        return SV(T.ANY, z3.Const(f"attrval!{next(_c)}", I))

    def bi_sorted(self, n, line):
        raise __import__("vlib.pyvc.engine", fromlist=["Unsupported"]).Unsupported("sorted()")

    def bi_type(self, n, line):
        raise __import__("vlib.pyvc.engine", fromlist=["Unsupported"]).Unsupported("type()")

    def bi_hasattr(self, n, line):
        raise __import__("vlib.pyvc.engine", fromlist=["Unsupported"]).Unsupported("hasattr()")

    # ---- spec-only functions -------------------------------------------------------------------
    def _spec_only(self, name):
        if not self.e.spec_mode:
            from vlib.pyvc.engine import Unsupported
            raise Unsupported(f"{name}() is a specification function")

    def bi_old(self, n, line):
        self._spec_only("old")
        e = self.e
        from vlib.pyvc.engine import State
        o = getattr(e, 'old_for_spec', None) or e.old
        saved = e.st
        tmp = State()
        tmp.env = dict(o.env) if o.env else dict(saved.env)
        tmp.heap = dict(o.heap)
        tmp.pc = saved.pc
        tmp.alloc = o.alloc
        e.st = tmp
        try:
            return e.ev(n.args[0])
        finally:
            e.st = saved
            for k, v in tmp.heap.items():
                if k not in o.heap:
                    o.heap[k] = v
                    saved.heap.setdefault(k, v)

    def bi_implies(self, n, line):
        from vlib.pyvc.engine import SV
        e = self.e
        a = e.truthy(e.ev(n.args[0]))
        e.guards.append(a)
        try:
            b = e.truthy(e.ev(n.args[1]))
        finally:
            e.guards.pop()
        return SV(T.BOOL, z3.Implies(a, b))

    def _quant(self, n, forall):
        """forall(lo, hi, lambda i: P)  /  exists(lo, hi, lambda i: P): i ranges over lo <= i < hi."""
        from vlib.pyvc.engine import SV, Unsupported
        e = self.e
        self._spec_only("forall")
        lo = e.coerce(e.ev(n.args[0]), T.INT).t
        hi = e.coerce(e.ev(n.args[1]), T.INT).t
        lam = n.args[2]
        if not isinstance(lam, ast.Lambda) or len(lam.args.args) != 1:
            raise Unsupported("quantifier body")
        v = z3.Int(f"{lam.args.args[0].arg}!q{next(_c)}")
        saved = e.bound
        e.bound = dict(saved)
        e.bound[lam.args.args[0].arg] = SV(T.INT, v)
        e._unfolding += 1   # no predicate unfolding under a binder
        e.binders.append(v)
        try:
            body = e.truthy(e.ev(lam.body))
        finally:
            e.binders.pop()
            e._unfolding -= 1
            e.bound = saved
        rng = z3.And(lo <= v, v < hi)
        if forall:
            return SV(T.BOOL, z3.ForAll([v], z3.Implies(rng, body)))
        return SV(T.BOOL, z3.Exists([v], z3.And(rng, body)))

    def bi_forall(self, n, line):
        return self._quant(n, True)

    def bi_exists(self, n, line):
        return self._quant(n, False)

    def bi_psum(self, n, line):
        """psum(int_list, i) = sum of the first i elements."""
        from vlib.pyvc.engine import SV
        e = self.e
        lst, i = self.args(n)
        return SV(T.INT, self.f_psum()(self.int_array_of(lst), e.coerce(i, T.INT).t))

    def bi_prod(self, n, line):
        """prod(int_list, lo, hi) = product of elements lo..hi-1."""
        from vlib.pyvc.engine import SV
        e = self.e
        lst, lo, hi = self.args(n)
        return SV(T.INT, self.f_prod()(self.int_array_of(lst), e.coerce(lo, T.INT).t, e.coerce(hi, T.INT).t))

    def int_array_of(self, lst):
        """An int-valued view of a list: the list itself if it holds ints, or a declared
        field/measure projection  (see bi_proj)."""
        e = self.e
        if lst.ty.kind == "tuple" and lst.ty.args and lst.t[0] == "proj":
            return lst.t[1]
        return e.list_arr(lst.t, T.INT)

    def bi_proj(self, n, line):
        """proj(list_of_refs, 'measure')  = int array  k -> measure(list[k])  for a pure int measure
        (field or @prop pure method) declared in the class table."""
        from vlib.pyvc.engine import SV
        e = self.e
        lst = e.ev(n.args[0])
        name = n.args[1].value
        ety = lst.ty.args[0]
        k = z3.Int("k!pj")
        e.binders.append(k)
        try:
            elem = e.list_get(lst, k)
            val = e.getattr(elem, name, line)
        finally:
            e.binders.pop()
        arr = self.name_array(z3.Lambda([k], e.coerce(val, T.INT).t))
        return SV(Ty("tuple", [T.ANY, T.ANY]), ("proj", arr))

    def _lemma(self, name, zargs, line):
        from vlib.pyvc import speclib
        from vlib.pyvc.engine import lift
        e = self.e
        l = speclib.LEMMAS[name]
        self.f_psum()
        self.f_prod()
        # the lemma's requires are an obligation of the call site (never skipped, even in spec mode)
        # array arguments may be lambda terms, which z3 does not accept inside patterns: name them
        named = []
        for za in zargs:
            if z3.is_array_sort(za) if hasattr(z3, "is_array_sort") else isinstance(za, z3.ArrayRef):
                if not z3.is_const(za) or za.decl().kind() != z3.Z3_OP_UNINTERPRETED:
                    cst = z3.Const(f"arr!{next(_c)}", za.sort())
                    e.assume(cst == za)
                    za = cst
            named.append(za)
        zargs = named
        hyps = list(e.st.pc) + list(e.guards)
        from vlib.pyvc.engine import Ob
        e.obs.append(Ob(e.oname("lemma", f"{name}.requires", line or None) + f"#{next(_c)}", hyps,
                        l.requires(*zargs), line, "lemma-use"))
        e.assume(l.ensures(*zargs))
        e.lemmas_used.add(name)
        return lift(None)

    def bi_lemma_psum_mono(self, n, line):
        a, k = self.args(n)
        return self._lemma("psum_mono", [self.int_array_of(a), self.e.coerce(k, T.INT).t], line)

    def bi_lemma_prod_pos(self, n, line):
        a, lo, hi = self.args(n)
        return self._lemma("prod_pos", [self.int_array_of(a), self.e.coerce(lo, T.INT).t,
                                        self.e.coerce(hi, T.INT).t], line)

    def bi_lemma_prod_unfold(self, n, line):
        a, lo, hi = self.args(n)
        return self._lemma("prod_unfold", [self.int_array_of(a), self.e.coerce(lo, T.INT).t,
                                           self.e.coerce(hi, T.INT).t], line)

    def bi_lemma_psum_unfold(self, n, line):
        a, i = self.args(n)
        return self._lemma("psum_unfold", [self.int_array_of(a), self.e.coerce(i, T.INT).t], line)

    def bi_lemma_div_bound(self, n, line):
        c, w, f = [self.e.coerce(x, T.INT).t for x in self.args(n)]
        return self._lemma("div_bound", [c, w, f], line)

    def bi_length(self, n, line):
        return self.bi_len(n, line)

    def bi_same_elements(self, n, line):
        """same_elements(a, b): lists a and b have equal length and equal elements (by ==)."""
        from vlib.pyvc.engine import SV
        e = self.e
        a, b = self.args(n)
        ety = a.ty.args[0]
        k = z3.Int("k!se")
        return SV(T.BOOL, z3.And(e.list_len(a.t) == e.list_len(b.t),
                                 z3.ForAll([k], z3.Implies(z3.And(0 <= k, k < e.list_len(a.t)),
                                                           z3.Select(e.list_arr(a.t, ety), k) ==
                                                           z3.Select(e.list_arr(b.t, ety), k)))))

    def bi_fresh(self, n, line):
        """fresh(x): reference x was allocated during the call (did not exist in the pre-state)."""
        from vlib.pyvc.engine import SV
        e = self.e
        (v,) = self.args(n)
        return SV(T.BOOL, v.t >= (getattr(e, 'old_for_spec', None) or e.old).alloc)

    def bi_allocated(self, n, line):
        """allocated(x): x is a non-null reference that existed in the function's pre-state."""
        from vlib.pyvc.engine import SV
        e = self.e
        (v,) = self.args(n)
        return SV(T.BOOL, z3.And(v.t > 0, v.t < e.alloc0))

    def bi_live(self, n, line):
        """live(x): x is a non-null reference allocated so far (in the state the clause is evaluated in)."""
        from vlib.pyvc.engine import SV
        e = self.e
        (v,) = self.args(n)
        return SV(T.BOOL, z3.And(v.t > 0, v.t < e.st.alloc))

    def bi_haskey(self, n, line):
        """haskey(d, k): key k is present in dict d"""
        from vlib.pyvc.engine import SV
        e = self.e
        d, k = self.args(n)
        kty = d.ty.args[0]
        return SV(T.BOOL, z3.Select(e.dict_has(d.t, kty), e.coerce(k, kty).t))

    def _quant_ref(self, n, forall):
        """forall_ref(lambda x: P) / exists_ref(...): x ranges over all references (non-null)"""
        from vlib.pyvc.engine import SV, Unsupported
        e = self.e
        self._spec_only("forall_ref")
        lam = n.args[-1]
        cls = n.args[0].value if len(n.args) == 2 else None
        v = z3.Int(f"{lam.args.args[0].arg}!r{next(_c)}")
        saved = e.bound
        e.bound = dict(saved)
        e.bound[lam.args.args[0].arg] = SV(Ty("ref", cls=cls) if cls else T.ANY, v)
        e._unfolding += 1
        e.binders.append(v)
        try:
            body = e.truthy(e.ev(lam.body))
        finally:
            e.binders.pop()
            e._unfolding -= 1
            e.bound = saved
        if forall:
            return SV(T.BOOL, z3.ForAll([v], z3.Implies(v > 0, body)))
        return SV(T.BOOL, z3.Exists([v], z3.And(v > 0, body)))

    def bi_forall_ref(self, n, line):
        return self._quant_ref(n, True)

    def bi_exists_ref(self, n, line):
        return self._quant_ref(n, False)

    def bi_typeof(self, n, line):
        from vlib.pyvc.engine import SV
        e = self.e
        v = e.ev(n.args[0])
        cname = n.args[1].value
        tag = e.harr("tag", I, I)
        return SV(T.BOOL, z3.Select(tag, v.t) == e.classes.ids[cname])

    def bi_sametype(self, n, line):
        from vlib.pyvc.engine import SV
        e = self.e
        a, b = self.args(n)
        tag = e.harr("tag", I, I)
        return SV(T.BOOL, z3.Select(tag, a.t) == z3.Select(tag, b.t))

    # ---------------------------------------------------------------------------------------------
    # methods of modelled values
    # ---------------------------------------------------------------------------------------------
    def call_method(self, base, name, args, kwargs, n, line):
        from vlib.pyvc.engine import Unsupported
        k = base.ty.kind
        m = getattr(self, f"m_{k}_{name}", None)
        if m is None:
            raise Unsupported(f"method {k}.{name} at line {line}")
        return m(base, args, kwargs, n, line)

    # list methods
    def m_list_append(self, base, args, kwargs, n, line):
        e = self.e
        from vlib.pyvc.engine import lift
        ety = base.ty.args[0]
        ln = e.list_len(base.t)
        arr = e.list_arr(base.t, ety)
        v = e.coerce(args[0], ety)
        e.hwrite(f"list.elem.{T.sort_name(ety)}", base.t, z3.Store(arr, ln, v.t), z3.ArraySort(I, T.sort_of(ety)))
        if ety.kind == "opt" and not ety.args[0].is_heapref:
            na = e.list_none_arr(base.t)
            e.hwrite("list.elemnone", base.t, z3.Store(na, ln, v.isnone if v.isnone is not None else z3.BoolVal(False)),
                     z3.ArraySort(I, Bo))
        e.hwrite("list.len", base.t, ln + 1, I)
        return lift(None)

    def m_list_extend(self, base, args, kwargs, n, line):
        e = self.e
        from vlib.pyvc.engine import lift
        ety = base.ty.args[0]
        o = args[0]
        na, nb = e.list_len(base.t), e.list_len(o.t)
        aa, ab = e.list_arr(base.t, ety), e.list_arr(o.t, o.ty.args[0])
        j = z3.Int("j!ex")
        arr = z3.Lambda([j], z3.If(j < na, z3.Select(aa, j), z3.Select(ab, j - na)))
        e.hwrite(f"list.elem.{T.sort_name(ety)}", base.t, arr, z3.ArraySort(I, T.sort_of(ety)))
        e.hwrite("list.len", base.t, na + nb, I)
        return lift(None)

    def m_list_pop(self, base, args, kwargs, n, line):
        e = self.e
        ety = base.ty.args[0]
        ln = e.list_len(base.t)
        if args:
            from vlib.pyvc.engine import Unsupported
            raise Unsupported("list.pop(i)")
        e.fail("IndexError", ln <= 0, line, "pop-from-empty")
        v = e.list_get(base, ln - 1)
        e.hwrite("list.len", base.t, ln - 1, I)
        return v

    def m_list_remove(self, base, args, kwargs, n, line):
        """lst.remove(x): drops the FIRST element equal to x (identity/value equality of the modelled sort);
        ValueError if there is none"""
        e = self.e
        from vlib.pyvc.engine import fresh, lift
        ety = base.ty.args[0]
        ln = e.list_len(base.t)
        arr = e.list_arr(base.t, ety)
        v = e.coerce(args[0], ety)
        j = z3.Int("j!rm")
        present = z3.Exists([j], z3.And(0 <= j, j < ln, z3.Select(arr, j) == v.t))
        e.fail("ValueError", z3.Not(present), line, "remove-absent")
        idx = fresh("rmidx", I)
        e.assume(z3.And(0 <= idx, idx < ln, z3.Select(arr, idx) == v.t,
                        z3.ForAll([j], z3.Implies(z3.And(0 <= j, j < idx), z3.Select(arr, j) != v.t))))
        e.hwrite(f"list.elem.{T.sort_name(ety)}", base.t,
                 z3.Lambda([j], z3.If(j < idx, z3.Select(arr, j), z3.Select(arr, j + 1))), z3.ArraySort(I, T.sort_of(ety)))
        e.hwrite("list.len", base.t, ln - 1, I)
        # consequence of the definition, stated with its witness so that membership survives the shift of indices:
        # every other element of the old list is in the new one, at j (before idx) or j - 1 (after it)
        narr = e.list_arr(base.t, ety)
        e.assume(z3.ForAll([j], z3.Implies(z3.And(0 <= j, j < ln, j != idx),
                                           z3.Select(narr, z3.If(j < idx, j, j - 1)) == z3.Select(arr, j)),
                           patterns=[z3.Select(arr, j)]))
        return lift(None)

    def m_list_reverse(self, base, args, kwargs, n, line):
        e = self.e
        from vlib.pyvc.engine import lift
        ety = base.ty.args[0]
        ln = e.list_len(base.t)
        arr = e.list_arr(base.t, ety)
        j = z3.Int("j!rv")
        e.hwrite(f"list.elem.{T.sort_name(ety)}", base.t, z3.Lambda([j], z3.Select(arr, ln - 1 - j)),
                 z3.ArraySort(I, T.sort_of(ety)))
        return lift(None)

    # set methods
    def m_set_add(self, base, args, kwargs, n, line):
        e = self.e
        from vlib.pyvc.engine import lift
        ety = base.ty.args[0]
        e.set_write(base.t, ety, z3.Store(e.set_arr(base.t, ety), e.coerce(args[0], ety).t, True))
        return lift(None)

    def m_set_discard(self, base, args, kwargs, n, line):
        e = self.e
        from vlib.pyvc.engine import lift
        ety = base.ty.args[0]
        e.set_write(base.t, ety, z3.Store(e.set_arr(base.t, ety), e.coerce(args[0], ety).t, False))
        return lift(None)

    def m_set_remove(self, base, args, kwargs, n, line):
        e = self.e
        ety = base.ty.args[0]
        x = e.coerce(args[0], ety).t
        e.fail("KeyError", z3.Not(z3.Select(e.set_arr(base.t, ety), x)), line, "remove-absent")
        return self.m_set_discard(base, args, kwargs, n, line)

    def m_set_update(self, base, args, kwargs, n, line):
        e = self.e
        from vlib.pyvc.engine import lift
        ety = base.ty.args[0]
        a, b = e.set_arr(base.t, ety), e.set_arr(args[0].t, ety)
        x = z3.Const("x!su", T.sort_of(ety))
        e.set_write(base.t, ety, z3.Lambda([x], z3.Or(z3.Select(a, x), z3.Select(b, x))))
        return lift(None)

    def _setop(self, base, other, f):
        e = self.e
        from vlib.pyvc.engine import SV
        ety = base.ty.args[0]
        a, b = e.set_arr(base.t, ety), e.set_arr(other.t, ety)
        x = z3.Const("x!so", T.sort_of(ety))
        r = e.new_ref("set")
        e.set_write(r, ety, z3.Lambda([x], f(z3.Select(a, x), z3.Select(b, x))))
        return SV(base.ty, r)

    def m_set_difference(self, base, args, kwargs, n, line):
        return self._setop(base, args[0], lambda p, q: z3.And(p, z3.Not(q)))

    def m_set_intersection(self, base, args, kwargs, n, line):
        return self._setop(base, args[0], lambda p, q: z3.And(p, q))

    def m_set_union(self, base, args, kwargs, n, line):
        return self._setop(base, args[0], lambda p, q: z3.Or(p, q))

    def m_set_issubset(self, base, args, kwargs, n, line):
        e = self.e
        from vlib.pyvc.engine import SV
        ety = base.ty.args[0]
        a, b = e.set_arr(base.t, ety), e.set_arr(args[0].t, ety)
        x = z3.Const("x!ss", T.sort_of(ety))
        return SV(T.BOOL, z3.ForAll([x], z3.Implies(z3.Select(a, x), z3.Select(b, x))))

    # dict methods
    def m_dict_get(self, base, args, kwargs, n, line):
        e = self.e
        from vlib.pyvc.engine import lift
        kty, vty = base.ty.args
        key = e.coerce(args[0], kty)
        has = z3.Select(e.dict_has(base.t, kty), key.t)
        from vlib.pyvc.engine import SV
        v = SV(vty, z3.Select(e.dict_val(base.t, kty, vty), key.t))
        e.wf_ref(v)
        dflt = args[1] if len(args) > 1 else lift(None)
        return e.merge_if(has, v, dflt)

    def m_dict_values(self, base, args, kwargs, n, line):
        """d.values(): a list holding exactly the values of the dict, one per key, in some fixed order"""
        from vlib.pyvc.engine import SV
        e = self.e
        kty, vty = base.ty.args
        ln = z3.Int(f"nvals!{next(_c)}")
        keyat = z3.Function(f"keyat!{next(_c)}", I, T.sort_of(kty))
        idxof = z3.Function(f"idxof!{next(_c)}", T.sort_of(kty), I)
        has = e.dict_has(base.t, kty)
        val = e.dict_val(base.t, kty, vty)
        k = z3.Int("k!dv")
        x = z3.Const("x!dv", T.sort_of(kty))
        arr = z3.Const(f"vals!{next(_c)}", z3.ArraySort(I, T.sort_of(vty)))
        e.assume(ln >= 0)
        e.assume(z3.ForAll([k], z3.Implies(z3.And(0 <= k, k < ln), z3.And(z3.Select(has, keyat(k)), idxof(keyat(k)) == k,
                                                                      z3.Select(arr, k) == z3.Select(val, keyat(k)))),
                           patterns=[z3.Select(arr, k)]))
        e.assume(z3.ForAll([x], z3.Implies(z3.Select(has, x), z3.And(0 <= idxof(x), idxof(x) < ln, keyat(idxof(x)) == x)),
                           patterns=[idxof(x)]))
        out = e.new_list(vty, ln, arr)
        out.view = ("values", keyat, idxof)
        return out

    def m_dict_keys(self, base, args, kwargs, n, line):
        from vlib.pyvc.engine import SV
        kty = base.ty.args[0]
        # a view usable with `in` / set operations: model as the key set
        e = self.e
        r = e.new_ref("keys")
        e.set_write(r, kty, e.dict_has(base.t, kty))
        return SV(Ty("set", [kty]), r)

    # str methods
    def m_str_startswith(self, base, args, kwargs, n, line):
        from vlib.pyvc.engine import SV
        return SV(T.BOOL, z3.PrefixOf(args[0].t, base.t))

    def m_str_endswith(self, base, args, kwargs, n, line):
        from vlib.pyvc.engine import SV
        return SV(T.BOOL, z3.SuffixOf(args[0].t, base.t))

    def m_str_count(self, base, args, kwargs, n, line):
        """s.count(c): trusted axioms: 0 <= count <= len(s); count == 0 iff c not in s (c non-empty)."""
        from vlib.pyvc.engine import SV
        f = z3.Function("str_count", S, S, I)
        r = f(base.t, args[0].t)
        e = self.e
        e.assume(z3.And(r >= 0, z3.Implies(z3.Length(args[0].t) > 0, z3.And(
            r <= z3.Length(base.t), (r == 0) == z3.Not(z3.Contains(base.t, args[0].t))))))
        e.assumptions_used.add("axioms of str.count (0 <= n <= len; n == 0 iff no occurrence)")
        return SV(T.INT, r)

    def m_str_rfind(self, base, args, kwargs, n, line):
        """s.rfind(sub, start, end) with 0 <= start: trusted axioms (last occurrence inside the window)."""
        from vlib.pyvc.engine import SV
        e = self.e
        s, sub = base.t, args[0].t
        ln = z3.Length(s)
        start = self.clamp(args[1], ln, z3.IntVal(0)) if len(args) > 1 else z3.IntVal(0)
        end = self.clamp(args[2], ln, ln) if len(args) > 2 else ln
        r = z3.Int(f"rfind!{next(_c)}")
        m = z3.Length(sub)
        k = z3.Int("k!rf")
        e.assume(z3.Or(
            z3.And(r == -1, z3.ForAll([k], z3.Implies(z3.And(start <= k, k + m <= end), z3.SubString(s, k, m) != sub))),
            z3.And(start <= r, r + m <= end, z3.SubString(s, r, m) == sub,
                   z3.ForAll([k], z3.Implies(z3.And(r < k, k + m <= end), z3.SubString(s, k, m) != sub)))))
        e.assumptions_used.add("axioms of str.rfind (last occurrence within [start, end))")
        return SV(T.INT, r)

    def m_str_find(self, base, args, kwargs, n, line):
        from vlib.pyvc.engine import SV
        if len(args) == 1:
            return SV(T.INT, z3.IndexOf(base.t, args[0].t, 0))
        return SV(T.INT, z3.IndexOf(base.t, args[0].t, args[1].t))

    def _total_str_fun(self, name, base, *extra):
        from vlib.pyvc.engine import SV
        f = z3.Function(name, S, *[x.sort() for x in extra], S)
        self.e.assumptions_used.add(f"{name} is a total function on strings (uninterpreted)")
        return SV(T.STR, f(base.t, *extra))

    def m_str_rstrip(self, base, args, kwargs, n, line):
        r = self._total_str_fun("str_rstrip", base, *(a.t for a in args))
        self.e.assume(z3.And(z3.Length(r.t) <= z3.Length(base.t), z3.PrefixOf(r.t, base.t)))
        return r

    def m_str_strip(self, base, args, kwargs, n, line):
        r = self._total_str_fun("str_strip", base, *(a.t for a in args))
        self.e.assume(z3.Length(r.t) <= z3.Length(base.t))
        return r

    def m_str_lower(self, base, args, kwargs, n, line):
        r = self._total_str_fun("str_lower", base)
        self.e.assume(z3.Length(r.t) == z3.Length(base.t))
        self.e.assumptions_used.add("len(s.lower()) == len(s) (true for the ASCII/BMP texts considered; "
                                    "false for a few special-casing code points such as U+0130)")
        return r

    def m_str_replace(self, base, args, kwargs, n, line):
        return self._total_str_fun("str_replace", base, args[0].t, args[1].t)

    def m_str_join(self, base, args, kwargs, n, line):
        from vlib.pyvc.engine import SV, Unsupported
        e = self.e
        lst = args[0] if args else None
        a0 = n.args[0]
        if lst is None:
            raise Unsupported("join without argument")
        if lst.ty.kind != "list":
            raise Unsupported(f"join over {lst.ty}")
        ety = lst.ty.args[0]
        ok = ety.kind == "str"
        if not ok:
            e.fail("TypeError", z3.BoolVal(True), line, "join-non-str")
        f = z3.Function("str_join", S, I, z3.ArraySort(I, S), S)
        return SV(T.STR, f(base.t, e.list_len(lst.t), e.list_arr(lst.t, T.STR)))

    def m_str_splitlines(self, base, args, kwargs, n, line):
        """text.splitlines(keepends=True): trusted axioms via the cumulative offset function off:
        off(0) = 0, off(k+1) = off(k) + len(L[k]), off(len L) = len(text), every line non-empty,
        L[k] = text[off(k):off(k+1)];  without keepends only: len(L) >= 0, total."""
        from vlib.pyvc.engine import SV
        e = self.e
        keep = bool(kwargs.get("keepends")) or bool(args)
        s = base.t
        ln = z3.Int(f"nlines!{next(_c)}")
        arr = z3.Const(f"lines!{next(_c)}", z3.ArraySort(I, S))
        out = e.new_list(T.STR, ln, arr)
        if keep:
            off = z3.Function(f"off!{next(_c)}", I, I)
            k = z3.Int("k!spl")
            e.assume(z3.And(
                off(0) == 0, off(ln) == z3.Length(s), (ln == 0) == (z3.Length(s) == 0),
                z3.ForAll([k], z3.Implies(z3.And(0 <= k, k < ln), z3.And(
                    z3.Length(arr[k]) >= 1, off(k + 1) == off(k) + z3.Length(arr[k]),
                    arr[k] == z3.SubString(s, off(k), z3.Length(arr[k])))), patterns=[arr[k]]),
                z3.ForAll([k], z3.Implies(z3.And(0 <= k, k < ln), off(k + 1) == off(k) + z3.Length(arr[k])),
                          patterns=[off(k + 1)]),
                z3.ForAll([k], z3.Implies(z3.And(0 <= k, k < ln), z3.And(off(k) < off(k + 1), off(k + 1) <= z3.Length(s))),
                          patterns=[off(k)]),
            ))
            out.view = ("splitlines", off)
            e.st.env["__off"] = SV(T.ANY, z3.IntVal(0))
            e._last_off = off
            e.assumptions_used.add("axioms of str.splitlines(keepends=True) (non-empty pieces that concatenate to "
                                   "the text; the monotonicity clause is the sum of positive lengths)")
        else:
            e.assumptions_used.add("str.splitlines() is total and returns a list of strings (contents unconstrained)")
        return out

    def bi_lineoff(self, n, line):
        """lineoff(k): spec access to the cumulative offset function of the most recent
        splitlines(keepends=True) in this function."""
        from vlib.pyvc.engine import SV
        e = self.e
        (k,) = self.args(n)
        return SV(T.INT, e._last_off(e.coerce(k, T.INT).t))

    def user_eq(self, a, b):
        """a == b for a class with __eq__ override declared in the sidecar as an equality over keys."""
        e = self.e
        from vlib.pyvc.engine import SV
        keys = e.c.eq_overrides[a.ty.cls]
        conj = []
        for kx in keys:
            va = e.getattr(a, kx, 0)
            vb = e.getattr(b, kx, 0)
            conj.append(e.same(va, vb))
        return z3.And(*conj)


import itertools
_c = itertools.count()


def SVs(t):
    from vlib.pyvc.engine import SV
    return SV(T.STR, t)
