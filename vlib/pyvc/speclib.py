"""Lemmas about the spec functions (psum, prod) that need induction.  Each lemma has a statement
(requires => ensures), is *used* at a call site by `lemma_<name>(args)` in a ghost clause (its
requires become an obligation there, its ensures an assumption), and is *proved* here by an
explicit induction whose base and step cases are discharged by the solver on every run (they are
counted as obligations `lemma.<name>.<case>`)."""
import z3

I = z3.IntSort()
IntArr = z3.ArraySort(I, I)


def psum_def(f):
    a = z3.Const("a!ps", IntArr)
    i = z3.Int("i!ps")
    return [z3.ForAll([a], f(a, 0) == 0),
            z3.ForAll([a, i], z3.Implies(i >= 0, f(a, i + 1) == f(a, i) + a[i]), patterns=[f(a, i + 1)])]


def prod_def(f):
    a = z3.Const("a!pr", IntArr)
    lo, hi = z3.Ints("lo!pr hi!pr")
    return [z3.ForAll([a, lo, hi], z3.Implies(lo >= hi, f(a, lo, hi) == 1), patterns=[f(a, lo, hi)]),
            z3.ForAll([a, lo, hi], z3.Implies(lo < hi, f(a, lo, hi) == a[lo] * f(a, lo + 1, hi)),
                      patterns=[f(a, lo, hi)])]


class Lemma:
    def __init__(self, name, doc, requires, ensures, proof):
        self.name, self.doc = name, doc
        self.requires, self.ensures, self.proof = requires, ensures, proof


def _psum_mono():
    psum = z3.Function("psum", IntArr, I, I)

    def requires(a, n):
        k = z3.Int("k!l1")
        return z3.And(n >= 0, z3.ForAll([k], z3.Implies(z3.And(0 <= k, k < n), a[k] >= 0)))

    def ensures(a, n):
        i = z3.Int("i!l1")
        return z3.ForAll([i], z3.Implies(z3.And(0 <= i, i <= n), z3.And(psum(a, i) <= psum(a, n), psum(a, i) >= 0)),
                         patterns=[psum(a, i)])

    def proof():
        a = z3.Const("a!L", IntArr)
        n = z3.Int("n!L")
        ax = psum_def(psum)
        base = (ax + [requires(a, z3.IntVal(0))], ensures(a, z3.IntVal(0)))
        step = (ax + [n >= 0, requires(a, n + 1), z3.Implies(requires(a, n), ensures(a, n))], ensures(a, n + 1))
        return [("base", base), ("step", step)]
    return Lemma("psum_mono", "prefix sums of a non-negative sequence are non-negative and monotone",
                 requires, ensures, proof)


def _prod_pos():
    prod = z3.Function("prod", IntArr, I, I, I)

    def requires(a, lo, hi):
        k = z3.Int("k!l2")
        return z3.And(lo <= hi, z3.ForAll([k], z3.Implies(z3.And(lo <= k, k < hi), a[k] >= 1)))

    def ensures(a, lo, hi):
        i = z3.Int("i!l2")
        return z3.ForAll([i], z3.Implies(z3.And(lo <= i, i <= hi), prod(a, i, hi) >= 1), patterns=[prod(a, i, hi)])

    def proof():
        # induction on d = hi - i (downwards in i): P(d): lo <= hi-d => prod(a, hi-d, hi) >= 1
        a = z3.Const("a!L", IntArr)
        lo, hi, d = z3.Ints("lo!L hi!L d!L")
        ax = prod_def(prod)
        k = z3.Int("k!l2")
        hyp = z3.ForAll([k], z3.Implies(z3.And(lo <= k, k < hi), a[k] >= 1))
        base = (ax + [hyp], prod(a, hi, hi) >= 1)
        step = (ax + [hyp, d >= 0, lo <= hi - d - 1, prod(a, hi - d, hi) >= 1], prod(a, hi - d - 1, hi) >= 1)
        return [("base", base), ("step", step)]
    return Lemma("prod_pos", "a product of factors >= 1 is >= 1 (all suffix products)", requires, ensures, proof)


def _div_bound():
    def pydiv(a, b):
        q, r = a / b, a % b
        return z3.If(z3.And(b < 0, r != 0), q - 1, q), z3.If(z3.And(b < 0, r != 0), r + b, r)

    def requires(c, w, f):
        return z3.And(0 <= c, f >= 1, c < w * f)

    def ensures(c, w, f):
        q, r = pydiv(c, f)
        return z3.And(0 <= q, q < w, 0 <= r, r < f, c == q * f + r)

    def proof():
        c, w, f = z3.Ints("c!L w!L f!L")
        return [("direct", ([requires(c, w, f)], ensures(c, w, f)))]
    return Lemma("div_bound", "0 <= c < w*f, f >= 1  =>  0 <= c // f < w, 0 <= c % f < f, c == (c//f)*f + c%f "
                 "(Python floor division)", requires, ensures, proof)


def _prod_unfold():
    prod = z3.Function("prod", IntArr, I, I, I)
    return Lemma("prod_unfold", "definition of prod, recursive case (definitional: nothing to prove)",
                 lambda a, lo, hi: lo < hi,
                 lambda a, lo, hi: prod(a, lo, hi) == a[lo] * prod(a, lo + 1, hi),
                 lambda: [])


def _psum_unfold():
    psum = z3.Function("psum", IntArr, I, I)
    return Lemma("psum_unfold", "definition of psum, recursive case (definitional: nothing to prove)",
                 lambda a, i: i >= 0,
                 lambda a, i: psum(a, i + 1) == psum(a, i) + a[i],
                 lambda: [])


LEMMAS = {l.name: l for l in (_psum_mono(), _prod_pos(), _div_bound(), _prod_unfold(), _psum_unfold())}


def lemma_proof_tasks():
    """[(name, hyps, goal)] for every case of every lemma proof."""
    out = []
    for l in LEMMAS.values():
        for case, (hyps, goal) in l.proof():
            out.append((f"lemma.{l.name}.{case}", hyps, goal))
    return out
