"""pyvc: verification-condition generation from the ast of real Python functions.

Forward symbolic execution with path forking; loops are cut at sidecar invariants; calls to
functions under contract are replaced by assert-pre / havoc-modifies / assume-post; everything else
is an uninterpreted (listed) callee.  See DESIGN.md section 2.1 for the language subset and the value
model, and vlib/pyvc/api.py for the contract format.

Python semantics assumed by the encoding (each is an assumption of every proof):
  * int is mathematical; // and % are floor division / modulus with the sign of the divisor;
  * str is a z3 Unicode string; len/+/slicing/indexing/==/in/startswith/endswith/find are native,
    the remaining string builtins are axiomatised in vlib/pyvc/builtins.py;
  * objects are references into a Boogie-style heap (one map per field), containers are references
    too, allocation returns a reference distinct from all live ones;
  * the sidecar type environment is correct.
"""
import ast
import itertools

import z3

from vlib.pyvc import types as T
from vlib.pyvc.types import Ty, parse as ty

_ctr = itertools.count()


def fresh(name, sort):
    return z3.Const(f"{name}!{next(_ctr)}", sort)


class Unsupported(Exception):
    """Construct outside the PyCore subset: the function is out of reach (not a violation)."""


class SV:
    """Symbolic value: type + z3 term (+ is-None flag for optional scalars)."""
    __slots__ = ("ty", "t", "isnone", "view")

    def __init__(self, typ, t, isnone=None, view=None):
        self.ty = typ
        self.t = t
        self.isnone = isnone
        self.view = view

    def __repr__(self):
        return f"SV({self.ty}, {self.t})"


def lift(v):
    if isinstance(v, SV):
        return v
    if isinstance(v, bool):
        return SV(T.BOOL, z3.BoolVal(v))
    if isinstance(v, int):
        return SV(T.INT, z3.IntVal(v))
    if isinstance(v, str):
        return SV(T.STR, z3.StringVal(v))
    if v is None:
        return SV(T.NONE, z3.IntVal(0))
    raise Unsupported(f"constant {v!r}")


class State:
    def __init__(self):
        self.env = {}
        self.heap = {}
        self.pc = []
        self.alloc = None
        self.written = set()

    def copy(self):
        s = State()
        s.env = dict(self.env)
        s.heap = dict(self.heap)
        s.pc = list(self.pc)
        s.alloc = self.alloc
        s.written = set(self.written)
        return s


class Ob:
    def __init__(self, name, hyps, goal, line=None, kind="safety"):
        self.name = name
        self.hyps = hyps
        self.goal = goal
        self.line = line
        self.kind = kind


class Outcome:
    def __init__(self, kind, st, value=None, exc=None, line=None):
        self.kind = kind  # normal | return | raise | break | continue
        self.st = st
        self.value = value
        self.exc = exc
        self.line = line


PATH_CAP = 4000


class Engine:
    def __init__(self, registry, classes, fq_name, fdef, contract, module_globals=None):
        self.reg = registry          # name -> Contract (vlib.pyvc.api)
        self.classes = classes       # ClassTable
        self.fq = fq_name
        self.fdef = fdef
        self.c = contract
        self.obs = []
        self.axioms = []
        self.assumptions_used = set()
        self.paths = 0
        self.loops = self._number_loops(fdef)
        self.old = None              # pre-state snapshot
        self.spec_funcs = {}
        self.guards = []
        self.fail_conds = []
        self.st = None
        self.spec_mode = 0
        self.bound = {}
        self.result = None
        self.licensed = set(self.c.raises.keys()) | set(getattr(self.c, 'raises_may', {}).keys())
        self.handlers = []
        self.covers = []
        self.lemmas_used = set()
        self.named_arrays = {}
        self._unfolding = 0
        self.binders = []
        from vlib.pyvc import builtins as B
        self.B = B.Builtins(self)

    # ------------------------------------------------------------------------------------------
    def _number_loops(self, fdef):
        loops = [n for n in ast.walk(fdef) if isinstance(n, (ast.For, ast.While))]
        loops.sort(key=lambda n: (n.lineno, n.col_offset))
        return {id(n): i for i, n in enumerate(loops)}

    def oname(self, kind, label, line=None):
        s = f"{self.fq}#{kind}.{label}"
        if line is not None:
            s += f"@L{line}"
        return s

    def emit(self, kind, label, goal, line=None, st=None):
        st = st or self.st
        hyps = list(st.pc) + list(self.guards)
        self.obs.append(Ob(self.oname(kind, label, line), hyps, goal, line, kind))

    def assume(self, fact, st=None):
        (st or self.st).pc.append(fact)

    # ---- heap ---------------------------------------------------------------------------------
    def harr(self, key, dom, rng, st=None):
        st = st or self.st
        a = st.heap.get(key)
        if a is None:
            a = z3.Const(f"H0[{key}]", z3.ArraySort(dom, rng))
            st.heap[key] = a
            self.heap_array_facts(key, a, st)
            if self.old is not None and key not in self.old.heap:
                self.old.heap[key] = a
        return a

    def heap_array_facts(self, key, a, st=None):
        """Type invariants of a whole heap map (fresh or havocked): list lengths are non-negative."""
        if key == "list.len":
            r = z3.Int("r!len")
            fact = z3.ForAll([r], z3.Select(a, r) >= 0, patterns=[z3.Select(a, r)])
            (st or self.st).pc.append(fact)
            if self.old is not None and st is not self.old:
                self.old.pc.append(fact)

    def hread(self, key, ref, rng, st=None):
        return z3.Select(self.harr(key, z3.IntSort(), rng, st), ref)

    def hwrite(self, key, ref, val, rng, st=None):
        st = st or self.st
        a = self.harr(key, z3.IntSort(), rng, st)
        st.heap[key] = z3.Store(a, ref, val)
        st.written.add(key)

    def new_ref(self, name="obj"):
        st = self.st
        r = fresh(name, z3.IntSort())
        self.assume(r == st.alloc)
        st.alloc = st.alloc + 1
        return r

    def wf_ref(self, sv):
        """Well-formedness of a reference read from the environment or the heap: allocated, and
        non-null unless optional."""
        t = sv.ty
        if self.binders:
            return  # a fact about a term with a bound variable cannot be asserted outside its binder
        base = t.args[0] if t.kind == "opt" else t
        if base.is_heapref and base.kind != "any":
            self.assume(sv.t < self.st.alloc)
            if t.kind == "opt":
                self.assume(sv.t >= 0)
            else:
                self.assume(sv.t > 0)

    # field read/write with optional scalars
    def read_field(self, ref, cls, fname, st=None):
        dcl = self.classes.field(cls, fname)
        if dcl is None:
            return None
        dc, fty = dcl
        key = f"{dc}.{fname}"
        srt = T.sort_of(fty)
        v = self.hread(key, ref, srt, st)
        isn = None
        if fty.kind == "opt" and not fty.args[0].is_heapref:
            isn = self.hread(key + "#none", ref, z3.BoolSort(), st)
        sv = SV(fty, v, isn)
        if st is None or st is self.st:
            self.wf_ref(sv)
        return sv

    def write_field(self, ref, cls, fname, val):
        dcl = self.classes.field(cls, fname)
        if dcl is None:
            raise Unsupported(f"assignment to undeclared field {cls}.{fname}")
        dc, fty = dcl
        key = f"{dc}.{fname}"
        val = self.coerce(val, fty)
        self.hwrite(key, ref, val.t, T.sort_of(fty))
        if fty.kind == "opt" and not fty.args[0].is_heapref:
            self.hwrite(key + "#none", ref, val.isnone if val.isnone is not None else z3.BoolVal(False),
                        z3.BoolSort())

    # lists
    def list_len(self, ref, st=None):
        return self.hread("list.len", ref, z3.IntSort(), st)

    def list_arr(self, ref, ety, st=None):
        return self.hread(f"list.elem.{T.sort_name(ety)}", ref, z3.ArraySort(z3.IntSort(), T.sort_of(ety)), st)

    def list_none_arr(self, ref, st=None):
        return self.hread("list.elemnone", ref, z3.ArraySort(z3.IntSort(), z3.BoolSort()), st)

    def list_get(self, lst, idx, st=None):
        ety = lst.ty.args[0]
        v = z3.Select(self.list_arr(lst.t, ety, st), idx)
        isn = None
        if ety.kind == "opt" and not ety.args[0].is_heapref:
            isn = z3.Select(self.list_none_arr(lst.t, st), idx)
        sv = SV(ety, v, isn)
        if st is None or st is self.st:
            self.wf_ref(sv)
        return sv

    def new_list(self, ety, length, arr, nonearr=None):
        arr = self.B.name_array(arr)
        r = self.new_ref("list")
        self.hwrite("list.len", r, length, z3.IntSort())
        self.hwrite(f"list.elem.{T.sort_name(ety)}", r, arr, z3.ArraySort(z3.IntSort(), T.sort_of(ety)))
        if nonearr is not None:
            self.hwrite("list.elemnone", r, nonearr, z3.ArraySort(z3.IntSort(), z3.BoolSort()))
        self.assume(length >= 0)
        return SV(Ty("list", [ety]), r)

    def list_set_contents(self, lst, length, arr):
        ety = lst.ty.args[0]
        self.hwrite("list.len", lst.t, length, z3.IntSort())
        self.hwrite(f"list.elem.{T.sort_name(ety)}", lst.t, arr, z3.ArraySort(z3.IntSort(), T.sort_of(ety)))

    # sets / dicts
    def set_arr(self, ref, ety, st=None):
        return self.hread(f"set.has.{T.sort_name(ety)}", ref, z3.ArraySort(T.sort_of(ety), z3.BoolSort()), st)

    def set_write(self, ref, ety, arr):
        arr = self.B.name_array(arr)
        self.hwrite(f"set.has.{T.sort_name(ety)}", ref, arr, z3.ArraySort(T.sort_of(ety), z3.BoolSort()))

    def dict_has(self, ref, kty, st=None):
        return self.hread(f"dict.has.{T.sort_name(kty)}", ref, z3.ArraySort(T.sort_of(kty), z3.BoolSort()), st)

    def dict_val(self, ref, kty, vty, st=None):
        return self.hread(f"dict.val.{T.sort_name(kty)}.{T.sort_name(vty)}", ref,
                          z3.ArraySort(T.sort_of(kty), T.sort_of(vty)), st)

    # ---- coercions ------------------------------------------------------------------------------
    def coerce(self, v, to):
        """Adapt a value to a declared type (None into optionals, refs between classes)."""
        v = lift(v)
        if to.kind == "tuple" and v.ty.kind == "tuple" and len(to.args) == len(v.t):
            items = tuple(self.coerce(x, t_) for x, t_ in zip(v.t, to.args))
            return SV(Ty("tuple", [i.ty for i in items]), items)
        if to.kind == "opt":
            inner = to.args[0]
            if v.ty.kind == "none":
                if inner.is_heapref:
                    return SV(to, z3.IntVal(0))
                return SV(to, self.default_term(inner), z3.BoolVal(True))
            if v.ty.kind == "opt":
                return SV(to, v.t, v.isnone)
            if inner.is_heapref:
                return SV(to, v.t)
            return SV(to, v.t, z3.BoolVal(False))
        if to.kind == "key":
            if v.ty.kind == "key":
                return v
            if v.ty.kind == "str" and z3.is_string_value(v.t):
                tbl = self.__dict__.setdefault("_interned_keys", {})
                name = v.t.as_string()
                if name not in tbl:
                    tbl[name] = z3.IntVal(len(tbl) + 1)
                return SV(to, tbl[name])
            raise Unsupported(f"a dictionary key of type `key` must be a string literal, got {v.ty}")
        if to.kind == "any" and (v.ty.kind == "str" or (v.ty.kind == "opt" and v.ty.args[0].kind == "str")):
            b = self.box_str(v.t)
            if v.ty.kind == "opt":
                return SV(to, z3.If(self.is_none(v), z3.IntVal(0), b))
            return SV(to, b)
        if v.ty.kind == "opt" and to.kind != "opt":
            return SV(to, v.t)
        if to.kind == "any":
            if v.ty.kind in ("int", "bool", "str", "tuple"):
                return SV(to, fresh("boxed", z3.IntSort()))
            return SV(to, v.t)
        if v.ty.kind == "any":
            if to.kind in ("int", "bool", "str"):
                return SV(to, fresh("unboxed", T.sort_of(to)))
            return SV(to, v.t)
        if v.ty.kind == "bool" and to.kind == "int":
            return SV(to, z3.If(v.t, 1, 0))
        return SV(to if to.kind != "tuple" else v.ty, v.t, v.isnone)

    def box_str(self, term):
        """a string seen as an opaque object (parameter / field declared `any`): injective boxing, length kept"""
        box = z3.Function("box_str", z3.StringSort(), z3.IntSort())
        unbox = z3.Function("unbox_str", z3.IntSort(), z3.StringSort())
        alen = z3.Function("any_len", z3.IntSort(), z3.IntSort())
        b = box(term)
        fact = z3.And(b > 0, unbox(b) == term, alen(b) == z3.Length(term))
        if not any(fact.eq(x) for x in self.st.pc[-60:]):
            self.assume(fact)
        return b

    def default_term(self, t):
        if t.kind == "int":
            return z3.IntVal(0)
        if t.kind == "bool":
            return z3.BoolVal(False)
        if t.kind == "str":
            return z3.StringVal("")
        return z3.IntVal(0)

    def fresh_sv(self, typ, name="v"):
        if typ.kind == "tuple":
            return SV(typ, tuple(self.fresh_sv(a, name) for a in typ.args))
        if typ.kind == "none":
            return SV(typ, z3.IntVal(0))
        t = fresh(name, T.sort_of(typ))
        isn = None
        if typ.kind == "opt" and not typ.args[0].is_heapref:
            isn = fresh(name + "_isnone", z3.BoolSort())
        sv = SV(typ, t, isn)
        self.wf_ref(sv)
        if typ.kind in ("list",) or (typ.kind == "opt" and typ.args[0].kind == "list"):
            self.assume(self.list_len(t) >= 0)
        return sv

    # ---- truthiness / None tests ------------------------------------------------------------------
    def is_none(self, v):
        v = lift(v)
        k = v.ty.kind
        if k == "none":
            return z3.BoolVal(True)
        if k == "opt":
            if v.isnone is not None:
                return v.isnone
            return v.t == 0
        if v.ty.is_heapref:
            return v.t == 0
        return z3.BoolVal(False)

    def truthy(self, v):
        v = lift(v)
        t = v.ty
        k = t.kind
        if k == "bool":
            return v.t
        if k == "int":
            return v.t != 0
        if k == "str":
            return z3.Length(v.t) > 0
        if k == "none":
            return z3.BoolVal(False)
        if k == "opt":
            inner = SV(t.args[0], v.t)
            return z3.And(z3.Not(self.is_none(v)), self.truthy(inner))
        if k == "list":
            return self.list_len(v.t) > 0
        if k == "tuple":
            return z3.BoolVal(len(v.t) > 0)
        if k == "set":
            x = z3.Const("x!tr", T.sort_of(t.args[0]))
            member = z3.Select(self.set_arr(v.t, t.args[0]), x)
            if T.sort_name(t.args[0]) == "ref":
                # members of a set of references are references (None only if the element type is optional)
                member = z3.And(x >= 0 if t.args[0].kind == "opt" else x > 0, member)
            return z3.Exists([x], member)
        if k == "ref":
            ci_truthy = None
            for c in self.classes.mro(t.cls):
                if self.classes.get(c).truthy:
                    ci_truthy = self.classes.get(c).truthy
                    break
            if ci_truthy == "always":
                return v.t != 0
            if ci_truthy:
                raise Unsupported("class truthiness expression")
            return v.t != 0
        if k in ("any", "func"):
            # unknown object: truthiness is an uninterpreted predicate of its identity
            f = z3.Function("truthy_any", z3.IntSort(), z3.BoolSort())
            return z3.And(v.t != 0, f(v.t))
        raise Unsupported(f"truthiness of {t}")

    # =============================================================================================
    # expressions
    # =============================================================================================
    def fail(self, exc, cond, line, label):
        """An operation raises `exc` when `cond` holds.  If that exception is licensed by the
        contract (or handled by an enclosing try), it becomes an exceptional path; otherwise its
        absence is a safety obligation."""
        if self.spec_mode:
            return
        if exc in self.licensed or any(exc in h for h in self.handlers):
            g = z3.And(*self.guards, cond) if self.guards else cond
            self.fail_conds.append((exc, g, line))
        else:
            self.emit("safety", label, z3.Not(cond), line)
            # after the check the operation succeeded
            if not self.guards:
                self.assume(z3.Not(cond))

    def ev(self, node):
        m = getattr(self, "ev_" + type(node).__name__, None)
        if m is None:
            raise Unsupported(f"expression {type(node).__name__} at line {getattr(node, 'lineno', '?')}")
        return m(node)

    def ev_Constant(self, n):
        return lift(n.value)

    def ev_Name(self, n):
        if n.id in self.bound:
            return self.bound[n.id]
        if n.id == "result" and self.spec_mode and self.result is not None:
            return self.result
        if n.id in self.st.env:
            return self.st.env[n.id]
        g = self.c.globals.get(n.id)
        if g is not None:
            return self.global_value(n.id, g)
        if n.id in ("True", "False", "None"):
            return lift({"True": True, "False": False, "None": None}[n.id])
        raise Unsupported(f"unknown name {n.id} at line {n.lineno}")

    def global_value(self, name, spec):
        """Module-level constants declared in the sidecar: ('int', 3) or ('ref[Symbol]', None)."""
        typ, val = spec
        typ = ty(typ)
        if val is not None:
            return self.coerce(lift(val), typ)
        c = z3.Const(f"G[{name}]", T.sort_of(typ))
        sv = SV(typ, c)
        if typ.is_heapref:
            self.assume(c > 0)
            self.assume(c < self.st.alloc)
        return sv

    def ev_Tuple(self, n):
        items = tuple(self.ev(e) for e in n.elts)
        return SV(Ty("tuple", [i.ty for i in items]), items)

    def ev_Dict(self, n):
        """{} : a new empty dict (no key of any modelled key sort)"""
        if n.keys:
            raise Unsupported("non-empty dict display")
        r = self.new_ref("dict")
        for kty in (T.INT, T.STR, T.ANY):
            self.hwrite(f"dict.has.{T.sort_name(kty)}", r, self.B.name_array(z3.K(T.sort_of(kty), z3.BoolVal(False))),
                        z3.ArraySort(T.sort_of(kty), z3.BoolSort()))
        return SV(Ty("dict", [T.ANY, T.ANY]), r)

    def ev_JoinedStr(self, n):
        parts = []
        for v in n.values:
            if isinstance(v, ast.Constant):
                parts.append(z3.StringVal(v.value))
            else:
                parts.append(self.B.to_str(self.ev(v.value), v.lineno, v.format_spec).t)
        if not parts:
            return lift("")
        return SV(T.STR, z3.Concat(*parts) if len(parts) > 1 else parts[0])

    def ev_UnaryOp(self, n):
        v = self.ev(n.operand)
        if isinstance(n.op, ast.Not):
            return SV(T.BOOL, z3.Not(self.truthy(v)))
        if isinstance(n.op, ast.USub):
            return SV(T.INT, -self.coerce(v, T.INT).t)
        raise Unsupported("unary op")

    def ev_BoolOp(self, n):
        vals = []
        is_and = isinstance(n.op, ast.And)
        pushed = 0
        try:
            for e in n.values:
                v = self.ev(e)
                vals.append(v)
                g = self.truthy(v)
                self.guards.append(g if is_and else z3.Not(g))
                pushed += 1
        finally:
            for _ in range(pushed):
                self.guards.pop()
        if all(v.ty.kind == "bool" for v in vals):
            ts = [v.t for v in vals]
            return SV(T.BOOL, z3.And(*ts) if is_and else z3.Or(*ts))
        if getattr(n, "_truth_only", False):
            # the value is only tested (if / while / not): truthiness of each operand
            ts = [self.truthy(v) for v in vals]
            return SV(T.BOOL, z3.And(*ts) if is_and else z3.Or(*ts))
        # value-returning and/or: fold from the right
        res = vals[-1]
        for v in reversed(vals[:-1]):
            res = self.merge_if(self.truthy(v), res, v) if is_and else self.merge_if(self.truthy(v), v, res)
        return res

    def merge_if(self, cond, a, b):
        a, b = lift(a), lift(b)
        if a.ty.kind == "tuple" and b.ty.kind == "tuple" and len(a.t) == len(b.t):
            items = tuple(self.merge_if(cond, x, y) for x, y in zip(a.t, b.t))
            return SV(Ty("tuple", [i.ty for i in items]), items)
        if a.ty == b.ty and a.isnone is None and b.isnone is None:
            return SV(a.ty, z3.If(cond, a.t, b.t))
        # unify through optional
        base = None
        for x in (a, b):
            if x.ty.kind != "none":
                base = x.ty.args[0] if x.ty.kind == "opt" else x.ty
        if base is None:
            return lift(None)
        if a.ty.kind == "bool" and b.ty.kind != "bool" or b.ty.kind == "bool" and a.ty.kind != "bool":
            if a.ty.kind in ("bool",) and b.ty.kind in ("int",):
                return SV(T.INT, z3.If(cond, self.coerce(a, T.INT).t, b.t))
        to = Ty("opt", [base]) if (a.ty.kind in ("none", "opt") or b.ty.kind in ("none", "opt")) else base
        ca, cb = self.coerce(a, to), self.coerce(b, to)
        if T.sort_of(to) != ca.t.sort() or ca.t.sort() != cb.t.sort():
            raise Unsupported(f"cannot merge {a.ty} and {b.ty}")
        isn = None
        if ca.isnone is not None or cb.isnone is not None:
            isn = z3.If(cond, ca.isnone if ca.isnone is not None else z3.BoolVal(False),
                        cb.isnone if cb.isnone is not None else z3.BoolVal(False))
        return SV(to, z3.If(cond, ca.t, cb.t), isn)

    def ev_IfExp(self, n):
        c = self.truthy(self.ev(n.test))
        self.guards.append(c)
        try:
            a = self.ev(n.body)
        finally:
            self.guards.pop()
        self.guards.append(z3.Not(c))
        try:
            b = self.ev(n.orelse)
        finally:
            self.guards.pop()
        return self.merge_if(c, a, b)

    def ev_BinOp(self, n):
        a, b = self.ev(n.left), self.ev(n.right)
        return self.binop(n.op, a, b, n.lineno)

    def binop(self, op, a, b, line):
        a, b = lift(a), lift(b)
        # arithmetic on an optional: TypeError if it is None (no check in specifications)
        for nm in ("a", "b"):
            v = a if nm == "a" else b
            if v.ty.kind == "opt" and v.ty.args[0].kind in ("int", "str"):
                self.fail("TypeError", self.is_none(v), line, "none-operand")
                v = SV(v.ty.args[0], v.t)
                if nm == "a":
                    a = v
                else:
                    b = v
        ka, kb = a.ty.kind, b.ty.kind
        if ka == "bool":
            a, ka = self.coerce(a, T.INT), "int"
        if kb == "bool":
            b, kb = self.coerce(b, T.INT), "int"
        if ka == "int" and kb == "int":
            if isinstance(op, ast.Add):
                return SV(T.INT, a.t + b.t)
            if isinstance(op, ast.Sub):
                return SV(T.INT, a.t - b.t)
            if isinstance(op, ast.Mult):
                return SV(T.INT, a.t * b.t)
            if isinstance(op, (ast.FloorDiv, ast.Mod)):
                self.fail("ZeroDivisionError", b.t == 0, line, "zerodivision")
                # Python floor semantics from z3's Euclidean div/mod
                q, r = a.t / b.t, a.t % b.t
                if isinstance(op, ast.FloorDiv):
                    return SV(T.INT, z3.If(z3.And(b.t < 0, r != 0), q - 1, q))  # z3: a = b*q + r, 0 <= r < |b|
                return SV(T.INT, z3.If(z3.And(b.t < 0, r != 0), r + b.t, r))
            raise Unsupported("int operator")
        if ka == "str" and kb == "str" and isinstance(op, ast.Add):
            return SV(T.STR, z3.Concat(a.t, b.t))
        if ka == "str" and kb == "int" and isinstance(op, ast.Mult):
            return self.B.str_repeat(a, b)
        if ka == "list" and kb == "list" and isinstance(op, ast.Add):
            return self.B.list_concat(a, b)
        raise Unsupported(f"binary operator on {a.ty}, {b.ty} at line {line}")

    def ev_Compare(self, n):
        # idiom `type(x) is tuple` (== / is / is not): decided from the sidecar type of x (typed view)
        if (len(n.ops) == 1 and isinstance(n.ops[0], (ast.Is, ast.IsNot, ast.Eq, ast.NotEq))
                and isinstance(n.left, ast.Call) and isinstance(n.left.func, ast.Name) and n.left.func.id == "type"
                and len(n.left.args) == 1 and isinstance(n.comparators[0], ast.Name)
                and n.comparators[0].id in ("tuple", "list", "str", "int", "bool", "dict", "set")):
            v = lift(self.ev(n.left.args[0]))
            k = v.ty.args[0].kind if v.ty.kind == "opt" else v.ty.kind
            if k in ("tuple", "list", "str", "int", "bool", "dict", "set", "none"):
                same = (k == n.comparators[0].id)
                if v.ty.kind == "opt":
                    res = z3.And(z3.Not(self.is_none(v)), z3.BoolVal(same))
                else:
                    res = z3.BoolVal(same)
                self.assumptions_used.add(f"type({ast.unparse(n.left.args[0])}) decided from its sidecar type {v.ty}")
                return SV(T.BOOL, res if isinstance(n.ops[0], (ast.Is, ast.Eq)) else z3.Not(res))
            if k == "any" and n.comparators[0].id == "tuple":
                self.assumptions_used.add(f"type({ast.unparse(n.left.args[0])}) is tuple: assumed False for the opaque "
                                          "value (typed view: no tuple results)")
                res = z3.BoolVal(False)
                return SV(T.BOOL, res if isinstance(n.ops[0], (ast.Is, ast.Eq)) else z3.Not(res))
            raise Unsupported("type() of " + repr(v.ty))
        left = self.ev(n.left)
        conj = []
        for op, rn in zip(n.ops, n.comparators):
            right = self.ev(rn)
            conj.append(self.compare(op, left, right, n.lineno))
            left = right
        return SV(T.BOOL, z3.And(*conj) if len(conj) > 1 else conj[0])

    def same(self, a, b):
        """Python == on modelled values (identity for references)."""
        a, b = lift(a), lift(b)
        if a.ty.kind == "tuple" and b.ty.kind == "tuple":
            if len(a.t) != len(b.t):
                return z3.BoolVal(False)
            return z3.And(*[self.same(x, y) for x, y in zip(a.t, b.t)]) if a.t else z3.BoolVal(True)
        na, nb = self.is_none(a), self.is_none(b)
        if a.ty.kind == "none" or b.ty.kind == "none":
            return z3.And(na, nb)
        sa = T.sort_of(a.ty)
        sb = T.sort_of(b.ty)
        if sa != sb:
            if {a.ty.kind, b.ty.kind} <= {"int", "bool"}:
                return self.coerce(a, T.INT).t == self.coerce(b, T.INT).t
            # an opaque object compared with a string: the string is boxed
            for x, y in ((a, b), (b, a)):
                yk = y.ty.args[0].kind if y.ty.kind == "opt" else y.ty.kind
                if x.ty.kind == "any" and yk == "str":
                    return x.t == self.coerce(y, T.ANY).t
            return z3.BoolVal(False)
        if a.ty.kind == "opt" or b.ty.kind == "opt":
            return z3.Or(z3.And(na, nb), z3.And(z3.Not(na), z3.Not(nb), a.t == b.t))
        return a.t == b.t

    def compare(self, op, a, b, line):
        a, b = lift(a), lift(b)
        if isinstance(op, (ast.Is, ast.Eq)):
            if isinstance(op, ast.Eq) and a.ty.kind == "ref" and self.c.eq_overrides.get(a.ty.cls):
                return self.B.user_eq(a, b)
            return self.same(a, b)
        if isinstance(op, (ast.IsNot, ast.NotEq)):
            if isinstance(op, ast.NotEq) and a.ty.kind == "ref" and self.c.eq_overrides.get(a.ty.cls):
                return z3.Not(self.B.user_eq(a, b))
            return z3.Not(self.same(a, b))
        if isinstance(op, (ast.In, ast.NotIn)):
            r = self.B.contains(b, a, line)
            return r if isinstance(op, ast.In) else z3.Not(r)
        if a.ty.kind in ("opt",) and a.ty.args[0].kind == "int":
            self.fail("TypeError", self.is_none(a), line, "none-compare")
            a = SV(T.INT, a.t)
        if b.ty.kind in ("opt",) and b.ty.args[0].kind == "int":
            self.fail("TypeError", self.is_none(b), line, "none-compare")
            b = SV(T.INT, b.t)
        if a.ty.kind in ("int", "bool") and b.ty.kind in ("int", "bool"):
            x, y = self.coerce(a, T.INT).t, self.coerce(b, T.INT).t
            return {ast.Lt: x < y, ast.LtE: x <= y, ast.Gt: x > y, ast.GtE: x >= y}[type(op)]
        if a.ty.kind == "none" or b.ty.kind == "none":
            self.fail("TypeError", z3.BoolVal(True), line, "none-compare")
            return z3.BoolVal(False)
        if a.ty.kind == "str" and b.ty.kind == "str":
            x, y = a.t, b.t
            return {ast.Lt: x < y, ast.LtE: x <= y, ast.Gt: y < x, ast.GtE: y <= x}[type(op)]
        raise Unsupported(f"comparison of {a.ty} and {b.ty} at line {line}")

    # attribute access ------------------------------------------------------------------------------
    def ev_Attribute(self, n):
        base = self.ev(n.value)
        return self.getattr(base, n.attr, n.lineno)

    def deref_check(self, base, line):
        if base.ty.kind == "opt" or base.ty.kind == "none":
            self.fail("AttributeError", self.is_none(base), line, "none-attribute")

    def getattr(self, base, name, line):
        base = lift(base)
        t = base.ty
        if t.kind == "opt":
            self.deref_check(base, line)
            t = t.args[0]
            base = SV(t, base.t)
        if t.kind == "none":
            self.deref_check(base, line)
            raise Unsupported(f"attribute {name} of None at line {line}")
        if t.kind != "ref":
            raise Unsupported(f"attribute {name} of {t} at line {line}")
        v = self.read_field(base.t, t.cls, name)
        if v is not None:
            return v
        pn = self.classes.prop(t.cls, name)
        if pn is not None:
            return self.call_contract(pn, [base], {}, line, hoisted=False)
        pm = self.classes.pure_method(t.cls, name + "@prop")
        if pm is not None:
            dc, rty = pm
            f = z3.Function(f"{dc}.{name}", z3.IntSort(), T.sort_of(rty))
            sv = SV(rty, f(base.t))
            self.wf_ref(sv)
            return sv
        # declared by a subclass only: the dynamic class must be one that has it
        subs = [c for c in self.classes.subclasses(t.cls) if name in self.classes.get(c).fields]
        if subs:
            tag = self.harr("tag", z3.IntSort(), z3.IntSort())
            ids = []
            for c in subs:
                ids.extend(self.classes.ids[x] for x in self.classes.subclasses(c))
            self.fail("AttributeError", z3.Not(z3.Or(*[z3.Select(tag, base.t) == i for i in set(ids)])), line,
                      f"has-attribute-{name}")
            return self.read_field(base.t, subs[0], name)
        px = self.classes.proxy(t.cls)
        if px is not None:
            target = self.read_field(base.t, t.cls, px)
            self.assumptions_used.add(f"attribute proxy {t.cls}.__getattr__ -> .{px} (shape of the real "
                                      f"__getattr__ is checked at attach time)")
            return self.getattr(target, name, line)
        raise Unsupported(f"undeclared attribute {t.cls}.{name} at line {line}")

    # subscripts -------------------------------------------------------------------------------------
    def ev_Subscript(self, n):
        base = self.ev(n.value)
        if isinstance(n.slice, ast.Slice):
            lo = self.ev(n.slice.lower) if n.slice.lower is not None else None
            hi = self.ev(n.slice.upper) if n.slice.upper is not None else None
            if n.slice.step is not None:
                raise Unsupported("slice step")
            return self.B.slice(base, lo, hi, n.lineno)
        idx = self.ev(n.slice)
        return self.B.index(base, idx, n.lineno)

    def ev_List(self, n):
        items = [self.ev(e) for e in n.elts]
        return self.B.list_display(items, getattr(n, "_ety", None))

    def ev_ListComp(self, n):
        return self.B.listcomp(n)

    def ev_GeneratorExp(self, n):
        raise Unsupported("generator expression outside a recognised idiom")

    def ev_Lambda(self, n):
        raise Unsupported("lambda outside a recognised idiom")

    def ev_Call(self, n):
        return self.call(n, hoisted=False)

    # =============================================================================================
    # calls
    # =============================================================================================
    def resolve_callee(self, n):
        """Returns ('contract', qualified name, self_sv|None) | ('builtin', name, base_sv|None) |
        ('method', base_sv, name)"""
        f = n.func
        if isinstance(f, ast.Name):
            if f.id in self.st.env or f.id in self.bound:
                return ("value", f.id, None)
            q = self.c.callees.get(f.id)
            if q:
                return ("contract", q, None)
            # a source class name may be seen through another typed view (two sidecars with a view of one name)
            vname = (getattr(self.c, "class_views", None) or {}).get(f.id, f.id)
            if vname in self.classes.classes:
                return ("ctor", vname, None)
            return ("builtin", f.id, None)
        if isinstance(f, ast.Attribute):
            if isinstance(f.value, ast.Call) and isinstance(f.value.func, ast.Name) and f.value.func.id == "super":
                return ("super", f.attr, None)
            if isinstance(f.value, ast.Name) and f.value.id == "self" and f.attr == "__class__":
                return ("selfclass", None, None)
            base = self.ev(f.value)
            return ("method", base, f.attr)
        raise Unsupported("callee expression")

    def call(self, n, hoisted):
        if n.keywords and any(k.arg is None for k in n.keywords):
            raise Unsupported("**kwargs call")
        kind, a, b = self.resolve_callee(n)
        line = n.lineno
        if kind == "builtin":
            preds = getattr(self.c, "preds", None) or {}
            if a in preds:
                return self.state_pred(a, preds[a], n, line)
            ufs = getattr(self.c, "ufuns", None) or {}
            if a in ufs:
                doms, rng = ufs[a]
                args = [self.ev(x) for x in n.args]
                rty = ty(rng)
                f = z3.Function("uf_" + a, *[T.sort_of(ty(d)) for d in doms], T.sort_of(rty))
                return SV(rty, f(*[self.coerce(x, ty(d)).t for x, d in zip(args, doms)]))
            return self.B.call_builtin(a, n, line)
        if kind == "value":
            fv = self.ev(ast.Name(id=a, ctx=ast.Load(), lineno=line, col_offset=0))
            return self.call_opaque_value(fv, a, n, line, hoisted)
        args = [self.ev(x) for x in n.args]
        kwargs = {k.arg: self.ev(k.value) for k in n.keywords}
        if kind == "contract":
            return self.call_contract(a, args, kwargs, line, hoisted)
        if kind == "ctor":
            return self.construct(a, args, kwargs, line, hoisted)
        if kind == "selfclass":
            slf = self.st.env["self"]
            return self.construct(slf.ty.cls, args, kwargs, line, hoisted, tag_like=slf)
        if kind == "super":
            slf = self.st.env["self"]
            mro = self.classes.mro(self.c.owner_class)
            for c in mro[1:]:
                q = f"{self.c.class_module(c)}.{c}.{a}"
                if q in self.reg:
                    return self.call_contract(q, [slf] + args, kwargs, line, hoisted)
            raise Unsupported(f"super().{a} has no contract")
        if kind == "method":
            base, name = a, b
            return self.call_method(base, name, args, kwargs, n, line, hoisted)
        raise Unsupported("call kind")

    def call_method(self, base, name, args, kwargs, n, line, hoisted):
        base = lift(base)
        t = base.ty
        if t.kind == "opt":
            self.deref_check(base, line)
            t = t.args[0]
            base = SV(t, base.t)
        if t.kind == "ref":
            for c in self.classes.mro(t.cls):
                q = f"{self.c.class_module(c)}.{c}.{name}"
                if q in self.reg:
                    return self.call_contract(q, [base] + args, kwargs, line, hoisted)
            pm = self.classes.pure_method(t.cls, name)
            if pm is not None:
                dc, rty = pm
                doms = [z3.IntSort()] + [T.sort_of(x.ty) for x in args]
                f = z3.Function(f"{dc}.{name}", *doms, T.sort_of(rty))
                sv = SV(rty, f(base.t, *[x.t for x in args]))
                self.wf_ref(sv)
                self.assumptions_used.add(f"{dc}.{name}() treated as a pure, total function of its receiver")
                return sv
            fv = self.read_field(base.t, t.cls, name)
            if fv is not None:
                return self.call_opaque_value(fv, f"{t.cls}.{name}", n, line, hoisted, args, kwargs)
            px = self.classes.proxy(t.cls)
            if px is not None:
                target = self.read_field(base.t, t.cls, px)
                return self.call_method(target, name, args, kwargs, n, line, hoisted)
            raise Unsupported(f"method {t.cls}.{name} has no contract (line {line})")
        return self.B.call_method(base, name, args, kwargs, n, line)

    def call_opaque_value(self, fv, label, n, line, hoisted, args=None, kwargs=None):
        """Call of a function-valued variable/field (user call-back).  Needs an `opaque` declaration
        in the contract: result type, exceptions it may raise, what it may modify."""
        spec = self.c.opaque.get(label)
        if spec is None:
            raise Unsupported(f"call of function value {label} without an opaque declaration (line {line})")
        if args is None:
            args = [self.ev(x) for x in n.args]
        rty = ty(spec.get("returns", "any"))
        self.assumptions_used.add(f"call-back {label}(...) is an uninterpreted callee: {spec}")
        for e in spec.get("raises", []):
            if not hoisted:
                raise Unsupported(f"raising call-back {label} nested inside an expression (line {line})")
            self.fail_conds.append((e, fresh(f"{label}_raises_{e}", z3.BoolSort()), line))
        for m in spec.get("havoc", []):
            self.havoc_location(m, {}, line)
        if spec.get("pure"):
            doms = [T.sort_of(fv.ty)] + [T.sort_of(x.ty) for x in args if x.ty.kind != "tuple"]
            f = z3.Function(f"app_{label}_{len(doms)}_{T.sort_name(rty)}_" + "_".join(str(d) for d in doms),
                            *doms, T.sort_of(rty))
            r = SV(rty, f(fv.t, *[x.t for x in args if x.ty.kind != "tuple"]))
            if rty.kind == "opt" and not rty.args[0].is_heapref:
                fn = z3.Function(f"appnone_{label}_{len(doms)}", *doms, z3.BoolSort())
                r.isnone = fn(fv.t, *[x.t for x in args if x.ty.kind != "tuple"])
            self.wf_ref(r)
            return r
        return self.fresh_sv(rty, f"ret_{label}")

    def construct(self, cls, args, kwargs, line, hoisted, tag_like=None):
        q = f"{self.c.class_module(cls)}.{cls}.__init__"
        r = self.new_ref(cls.lower())
        tag = self.harr("tag", z3.IntSort(), z3.IntSort())
        if tag_like is not None:
            self.hwrite("tag", r, z3.Select(tag, tag_like.t), z3.IntSort())
        else:
            self.hwrite("tag", r, z3.IntVal(self.classes.ids[cls]), z3.IntSort())
        obj = SV(Ty("ref", cls=cls), r)
        if q in self.reg:
            self.call_contract(q, [obj] + args, kwargs, line, hoisted, fresh_self=True)
        elif q in self.c.inline_ctors:
            raise Unsupported("inline ctor")
        else:
            # record constructor without contract: fields unconstrained (listed)
            self.assumptions_used.add(f"{cls}(...) constructed without an __init__ contract: fields unconstrained")
        return obj

    # contract application ----------------------------------------------------------------------------
    def call_contract(self, q, args, kwargs, line, hoisted, fresh_self=False):
        callee = self.reg[q]
        names = list(callee.params.keys())
        if len(args) > len(names):
            raise Unsupported(f"too many arguments for {q}")
        benv = {}
        for nme, a in zip(names, args):
            benv[nme] = self.coerce(a, callee.params[nme])
        for k, v in kwargs.items():
            if k not in callee.params:
                raise Unsupported(f"unknown keyword {k} for {q}")
            benv[k] = self.coerce(v, callee.params[k])
        for nme in names:
            if nme not in benv:
                if nme in callee.defaults:
                    benv[nme] = self.coerce(lift(callee.defaults[nme]), callee.params[nme])
                else:
                    raise Unsupported(f"missing argument {nme} for {q}")
        short = q.split(".")[-2] + "." + q.split(".")[-1] if q.count(".") >= 2 else q
        pre_state = self.st.copy()
        # preconditions
        for i, r in enumerate(callee.requires):
            g = self.spec_eval(r, benv, callee, old_state=pre_state)
            if not self.spec_mode:
                self.emit("call", f"{short}.pre{i}", g, line)
        # exceptional outcomes
        for exc, cond in callee.raises.items():
            c = self.spec_eval(cond, benv, callee, old_state=pre_state)
            if self.spec_mode:
                continue
            if exc in self.licensed or any(exc in h for h in self.handlers):
                if not hoisted:
                    raise Unsupported(f"raising call {q} nested inside an expression (line {line})")
                g = z3.And(*self.guards, c) if self.guards else c
                self.fail_conds.append((exc, g, line))
            else:
                self.emit("call", f"{short}.no-{exc}", z3.Not(c), line)
                if not self.guards:
                    self.assume(z3.Not(c))
        for exc, cond in getattr(callee, "raises_may", {}).items():
            c = self.spec_eval(cond, benv, callee, old_state=pre_state)
            if self.spec_mode:
                continue
            if exc in self.licensed or any(exc in h for h in self.handlers):
                if not hoisted:
                    raise Unsupported(f"raising call {q} nested inside an expression (line {line})")
                nd = fresh(f"may_{exc}", z3.BoolSort())
                g = z3.And(*self.guards, c, nd) if self.guards else z3.And(c, nd)
                self.fail_conds.append((exc, g, line))
            else:
                self.emit("call", f"{short}.no-{exc}", z3.Not(c), line)
                if not self.guards:
                    self.assume(z3.Not(c))
        # the callee may have allocated: the allocation frontier moves (by an unknown amount) BEFORE the havoc of what it
        # modifies and before the result is introduced -- otherwise "the result is an allocated reference" (caller's frontier) contradicts the callee's
        # `fresh(result)` (at or above the frontier at the call) and every path after the call is vacuous
        if not self.spec_mode:
            na = fresh("alloc_after_call", z3.IntSort())
            self.assume(na >= self.st.alloc)
            self.st.alloc = na
        # havoc
        for m in callee.modifies:
            self.havoc_location(m, benv, line, callee)
        # result + postconditions
        res = None
        if callee.returns is not None:
            res = self.fresh_sv(callee.returns, "ret_" + short.replace(".", "_"))
        for e in callee.ensures:
            fact = self.spec_eval(e, benv, callee, old_state=pre_state, result=res)
            self.assume(fact)
        return res if res is not None else lift(None)

    def havoc_location(self, m, benv, line, callee=None):
        """m: 'x.f' (one field of one object), 'x.*' (all declared fields of x), 'list(x)' contents
        of a list, 'set(x)', 'dict(x)', 'heap' (everything)."""
        m = m.strip()
        if m == "heap":
            for k in list(self.st.heap):
                a = self.st.heap[k]
                self.st.heap[k] = fresh("havoc_" + k, a.sort())
                self.heap_array_facts(k, self.st.heap[k])
                self.st.written.add(k)
            return
        if m.startswith("field(") and m.endswith(")"):
            # the whole map of one field (of every object): for writes to objects reached through a container
            cls_, fld_ = m[6:-1].split(".")
            dcl = self.classes.field(cls_, fld_)
            if dcl is None:
                raise Unsupported(f"modifies clause {m}: no such field")
            key = f"{dcl[0]}.{fld_}"
            for k in (key, key + "#none"):
                if k in self.st.heap or k == key:
                    a = self.harr(k, z3.IntSort(), T.sort_of(dcl[1]) if k == key else z3.BoolSort())
                    self.st.heap[k] = fresh("havoc_" + k, a.sort())
                    self.st.written.add(k)
            return
        if m.startswith(("list(", "set(", "dict(")):
            kind, inner = m.split("(", 1)
            v = self.spec_eval(inner[:-1], benv, callee, raw=True)
            if kind == "list":
                ety = v.ty.args[0]
                self.hwrite("list.len", v.t, fresh("hlen", z3.IntSort()), z3.IntSort())
                self.assume(self.list_len(v.t) >= 0)
                self.hwrite(f"list.elem.{T.sort_name(ety)}", v.t,
                            fresh("helem", z3.ArraySort(z3.IntSort(), T.sort_of(ety))),
                            z3.ArraySort(z3.IntSort(), T.sort_of(ety)))
            elif kind == "set":
                ety = v.ty.args[0]
                self.set_write(v.t, ety, fresh("hset", z3.ArraySort(T.sort_of(ety), z3.BoolSort())))
            else:
                raise Unsupported("havoc dict")
            return
        objx, fld = m.rsplit(".", 1)
        o = self.spec_eval(objx, benv, callee, raw=True)
        t = o.ty.args[0] if o.ty.kind == "opt" else o.ty
        if t.kind != "ref":
            raise Unsupported(f"modifies clause {m}")
        fields = []
        if fld == "*":
            for c in self.classes.mro(t.cls):
                fields.extend((c, f, ft) for f, ft in self.classes.get(c).fields.items())
            for c in self.classes.subclasses(t.cls):
                fields.extend((c, f, ft) for f, ft in self.classes.get(c).fields.items())
        else:
            dc, ft = self.classes.field(t.cls, fld) or (None, None)
            if dc is None:
                for c in self.classes.subclasses(t.cls):
                    if fld in self.classes.get(c).fields:
                        dc, ft = c, self.classes.get(c).fields[fld]
            if dc is None:
                raise Unsupported(f"modifies clause {m}: no such field")
            fields.append((dc, fld, ft))
        seen = set()
        for dc, f, ft in fields:
            if (dc, f) in seen:
                continue
            seen.add((dc, f))
            key = f"{dc}.{f}"
            self.hwrite(key, o.t, fresh("h_" + f, T.sort_of(ft)), T.sort_of(ft))
            if ft.kind == "opt" and not ft.args[0].is_heapref:
                self.hwrite(key + "#none", o.t, fresh("hn_" + f, z3.BoolSort()), z3.BoolSort())
            sv = self.read_field(o.t, dc, f)

    # spec expressions --------------------------------------------------------------------------------
    def spec_eval(self, expr, benv=None, contract=None, old_state=None, result=None, raw=False, st=None):
        """Evaluate a contract clause (string) in spec mode.  benv: names bound to values (formals
        of a callee); old_state: what old(...) refers to."""
        tree = ast.parse(expr.strip(), mode="eval").body
        tree = self.expand_macros(tree, contract or self.c)
        saved = (self.bound, self.result, self.old_for_spec if hasattr(self, "old_for_spec") else None,
                 self.st, self.c)
        self.spec_mode += 1
        try:
            if benv is not None:
                self.bound = dict(benv)
            else:
                self.bound = dict(self.bound)
            if result is not None:
                self.result = result
            self.old_for_spec = old_state if old_state is not None else self.old
            if st is not None:
                self.st = st
            if contract is not None and contract is not self.c:
                # names in the callee's clause resolve against the callee's sidecar
                self._callee_c = contract
                self.c = _MergedContract(self.c, contract)
            v = self.ev(tree)
        finally:
            self.spec_mode -= 1
            self.bound, self.result, self.old_for_spec, self.st, self.c = saved
        if raw:
            return v
        return self.truthy(v)

    def state_pred(self, name, spec, n, line):
        """Recursive state predicate declared in the sidecar: P(x) is an uninterpreted predicate of
        the reference and of a stamp of the heap maps its body reads; every mention adds ONE unfolding
        P(x) => body(x) in the current state (the body may mention P on sub-objects, which stay
        folded).  P is *defined* by its unfolding, so the instance is definitional, not an axiom."""
        params, body, reads = spec
        args = [self.ev(a) for a in n.args]
        arrs = []
        for key, dom, rng in reads:
            a = self.harr(key, dom(), rng())
            arrs.append(self.B.name_array(a))
        f = z3.Function("pred_" + name, *[T.sort_of(a.ty) for a in args], *[a.sort() for a in arrs], z3.BoolSort())
        app = f(*[a.t for a in args], *arrs)
        key = ("unfold", name, tuple(a.get_id() for a in arrs))
        if key not in self.named_arrays:
            # one quantified unfolding per heap stamp:  forall x. P(x, stamp) => body(x)
            self.named_arrays[key] = True
            self._unfolding += 1
            saved = self.bound
            was = self.spec_mode
            try:
                self.bound = dict(saved)
                qs = []
                for p_, a_ in zip(params, args):
                    q = z3.Const(f"{p_}!pred{next(_ctr)}", T.sort_of(a_.ty))
                    qs.append(q)
                    self.bound[p_] = SV(a_.ty, q)
                self.binders.extend(qs)
                self.spec_mode += 1
                tree = self.expand_macros(ast.parse(body.strip(), mode="eval").body, self.c)
                b = self.truthy(self.ev(tree))
            finally:
                for _ in qs:
                    self.binders.pop()
                self.spec_mode = was
                self.bound = saved
                self._unfolding -= 1
            gen = f(*qs, *arrs)
            self.assume(z3.ForAll(qs, z3.Implies(gen, b), patterns=[gen]))
        return SV(T.BOOL, app)

    def expand_macros(self, tree, contract, depth=0):
        macros = getattr(contract, "macros", None) or {}
        if not macros or depth > 8:
            return tree
        eng = self

        class X(ast.NodeTransformer):
            def visit_Call(self, node):
                self.generic_visit(node)
                if isinstance(node.func, ast.Name) and node.func.id in macros:
                    params, body = macros[node.func.id]
                    btree = ast.parse(body.strip(), mode="eval").body
                    sub = dict(zip(params, node.args))

                    class S(ast.NodeTransformer):
                        def visit_Name(self, n2):
                            if n2.id in sub:
                                return sub[n2.id]
                            return n2
                    out = S().visit(btree)
                    return eng.expand_macros(out, contract, depth + 1)
                return node
        return ast.fix_missing_locations(X().visit(tree))

    # =============================================================================================
    # statements
    # =============================================================================================
    def run_block(self, stmts, st):
        """Execute statements from state st; returns list of Outcome."""
        outs = [Outcome("normal", st)]
        for s in stmts:
            nxt = []
            for o in outs:
                if o.kind != "normal":
                    nxt.append(o)
                    continue
                nxt.extend(self.run_stmt(s, o.st))
            outs = nxt
            self.paths = max(self.paths, len(outs))
            if len(outs) > PATH_CAP:
                raise Unsupported(f"more than {PATH_CAP} paths")
        return outs

    def with_state(self, st):
        self.st = st
        self.fail_conds = []
        self.guards = []

    def split_failures(self, st, line):
        """After evaluating a statement's expressions: fork one exceptional path per collected
        failure condition; the main path continues under their negation."""
        outs = []
        conds = self.fail_conds
        self.fail_conds = []
        for exc, cond, ln in conds:
            es = st.copy()
            es.pc.append(cond)
            if self.feasible(es):
                outs.append(Outcome("raise", es, exc=exc, line=ln or line))
            st.pc.append(z3.Not(cond))
        return outs

    def feasible(self, st, extra=None):
        s = z3.Solver()
        s.set("timeout", 1500)
        s.add(*st.pc)
        if extra is not None:
            s.add(extra)
        return s.check() != z3.unsat

    def run_stmt(self, s, st):
        self.with_state(st)
        ga = getattr(self.c, "ghost_at", None)
        if ga:
            try:
                src = ast.unparse(s).strip()
            except Exception:
                src = ""
            for key, stmts in ga.items():
                if src.startswith(key):
                    self.run_ghost(stmts, st)
                    self.with_state(st)
        m = getattr(self, "st_" + type(s).__name__, None)
        if m is None:
            raise Unsupported(f"statement {type(s).__name__} at line {s.lineno}")
        return m(s, st)

    def hoisted_value(self, node):
        """Evaluate an expression in statement position: a top-level call may raise / be forked."""
        if isinstance(node, ast.Call):
            return self.call(node, hoisted=True)
        return self.ev(node)

    def st_Expr(self, s, st):
        if isinstance(s.value, ast.Constant):
            return [Outcome("normal", st)]  # docstring
        self.hoisted_value(s.value)
        outs = self.split_failures(st, s.lineno)
        return outs + [Outcome("normal", st)]

    def st_Pass(self, s, st):
        return [Outcome("normal", st)]

    def st_Assert(self, s, st):
        c = self.truthy(self.ev(s.test))
        outs = self.split_failures(st, s.lineno)
        self.emit("assert", "holds", c, s.lineno)
        self.assume(c)
        return outs + [Outcome("normal", st)]

    def st_Assign(self, s, st):
        v = self.hoisted_value(s.value)
        for tgt in s.targets:
            self.assign(tgt, v, s.lineno)
        outs = self.split_failures(st, s.lineno)
        return outs + [Outcome("normal", st)]

    def st_AnnAssign(self, s, st):
        if s.value is None:
            return [Outcome("normal", st)]
        v = self.hoisted_value(s.value)
        self.assign(s.target, v, s.lineno)
        outs = self.split_failures(st, s.lineno)
        return outs + [Outcome("normal", st)]

    def st_AugAssign(self, s, st):
        cur = self.ev(s.target)
        v = self.ev(s.value)
        self.assign(s.target, self.binop(s.op, cur, v, s.lineno), s.lineno)
        outs = self.split_failures(st, s.lineno)
        return outs + [Outcome("normal", st)]

    def assign(self, tgt, v, line):
        v = lift(v)
        if isinstance(tgt, ast.Name):
            dt = self.c.locals.get(tgt.id)
            if dt is not None:
                v = self.coerce(v, dt)
            self.st.env[tgt.id] = v
            return
        if isinstance(tgt, ast.Attribute):
            base = self.ev(tgt.value)
            t = base.ty
            if t.kind == "opt":
                self.deref_check(base, line)
                t = t.args[0]
            if t.kind != "ref":
                raise Unsupported("attribute assignment on non-object")
            self.write_field(base.t, t.cls, tgt.attr, v)
            return
        if isinstance(tgt, (ast.Tuple, ast.List)):
            starred = [i for i, e in enumerate(tgt.elts) if isinstance(e, ast.Starred)]
            if starred:
                raise Unsupported("starred assignment")
            if v.ty.kind == "tuple":
                if len(v.t) != len(tgt.elts):
                    self.fail("ValueError", z3.BoolVal(True), line, "unpack-arity")
                    return
                for e, x in zip(tgt.elts, v.t):
                    self.assign(e, x, line)
                return
            if v.ty.kind == "list":
                n = len(tgt.elts)
                self.fail("ValueError", self.list_len(v.t) != n, line, "unpack-arity")
                for i, e in enumerate(tgt.elts):
                    self.assign(e, self.list_get(v, z3.IntVal(i)), line)
                return
            raise Unsupported("unpacking of " + repr(v.ty))
        if isinstance(tgt, ast.Subscript):
            base = self.ev(tgt.value)
            if isinstance(tgt.slice, ast.Slice):
                sl = tgt.slice
                bt = base.ty.args[0] if base.ty.kind == "opt" else base.ty
                if sl.lower is None and sl.upper is None and sl.step is None and bt.kind == "list" \
                        and v.ty.kind == "list":
                    # lst[:] = other : the list object keeps its identity, its contents become other's
                    if base.ty.kind == "opt":
                        self.deref_check(base, line)
                    ety = bt.args[0]
                    self.hwrite(f"list.elem.{T.sort_name(ety)}", base.t, self.list_arr(v.t, v.ty.args[0]),
                                z3.ArraySort(z3.IntSort(), T.sort_of(ety)))
                    self.hwrite("list.len", base.t, self.list_len(v.t), z3.IntSort())
                    return
                raise Unsupported("slice assignment")
            idx = self.ev(tgt.slice)
            self.B.setitem(base, idx, v, line)
            return
        raise Unsupported("assignment target")

    def st_Return(self, s, st):
        v = self.hoisted_value(s.value) if s.value is not None else lift(None)
        outs = self.split_failures(st, s.lineno)
        return outs + [Outcome("return", st, value=v, line=s.lineno)]

    def st_Raise(self, s, st):
        exc = None
        if isinstance(s.exc, ast.Call):
            f = s.exc.func
            exc = f.id if isinstance(f, ast.Name) else f.attr
            # arguments are evaluated (they may fail) but the exception object is not modelled
            for a in s.exc.args:
                try:
                    self.ev(a)
                except Unsupported:
                    self.assumptions_used.add(f"argument of raise {exc}(...) at line {s.lineno} not modelled")
        elif isinstance(s.exc, ast.Name):
            exc = s.exc.id
            v = self.st.env.get(exc)
            if v is not None:
                exc = "<reraise>"
        if exc is None:
            raise Unsupported("bare raise")
        outs = self.split_failures(st, s.lineno)
        return outs + [Outcome("raise", st, exc=exc, line=s.lineno)]

    @staticmethod
    def mark_truth_only(test):
        """and/or/not whose value is only tested: operands of mixed types need no common type"""
        if isinstance(test, ast.BoolOp):
            test._truth_only = True
            for v in test.values:
                Engine.mark_truth_only(v)
        elif isinstance(test, ast.UnaryOp) and isinstance(test.op, ast.Not):
            Engine.mark_truth_only(test.operand)

    def st_If(self, s, st):
        self.mark_truth_only(s.test)
        c = self.truthy(self.hoisted_value(s.test) if isinstance(s.test, ast.Call) else self.ev(s.test))
        outs = self.split_failures(st, s.lineno)
        st_t, st_f = st.copy(), st
        st_t.pc.append(c)
        st_f.pc.append(z3.Not(c))
        res = list(outs)
        ft, ff = self.feasible(st_t), self.feasible(st_f)
        self.covers.append((f"L{s.lineno}.then", ft))
        self.covers.append((f"L{s.lineno}.else", ff))
        if ft:
            res.extend(self.run_block(s.body, st_t))
        if ff:
            res.extend(self.run_block(s.orelse, st_f))
        return res

    def st_Break(self, s, st):
        return [Outcome("break", st)]

    def st_Continue(self, s, st):
        return [Outcome("continue", st)]

    def st_Delete(self, s, st):
        raise Unsupported("del statement")

    def st_Try(self, s, st):
        if s.finalbody:
            raise Unsupported("try/finally")
        handled = []
        for h in s.handlers:
            if h.type is None:
                raise Unsupported("bare except")
            names = [h.type.id] if isinstance(h.type, ast.Name) else [e.id for e in h.type.elts]
            handled.append((set(names), h))
        self.handlers.append(set().union(*[h[0] for h in handled]))
        try:
            outs = self.run_block(s.body, st)
        finally:
            self.handlers.pop()
        res = []
        for o in outs:
            if o.kind == "raise":
                hit = None
                for names, h in handled:
                    if o.exc in names or "Exception" in names:
                        hit = h
                        break
                if hit is not None:
                    self.with_state(o.st)
                    if hit.name:
                        o.st.env[hit.name] = SV(T.ANY, fresh("exc", z3.IntSort()))
                    res.extend(self.run_block(hit.body, o.st))
                    continue
            if o.kind == "normal" and s.orelse:
                res.extend(self.run_block(s.orelse, o.st))
                continue
            res.append(o)
        return res

    def st_With(self, s, st):
        raise Unsupported("with statement")

    def st_FunctionDef(self, s, st):
        # nested function: only usable through recognised idioms / opaque declarations
        st.env[s.name] = SV(Ty("func"), fresh("closure_" + s.name, z3.IntSort()))
        return [Outcome("normal", st)]

    def st_Import(self, s, st):
        return [Outcome("normal", st)]

    st_ImportFrom = st_Import

    # loops -----------------------------------------------------------------------------------------
    def loop_spec(self, node):
        k = self.loops[id(node)]
        return k, self.c.loops.get(k, {})

    def modified_names(self, body):
        names = set()
        for n in ast.walk(ast.Module(body=body, type_ignores=[])):
            if isinstance(n, ast.Name) and isinstance(n.ctx, ast.Store):
                names.add(n.id)
        return names

    def havoc_loop(self, st, body, extra_names=()):
        """Havoc what the loop body may change: assigned locals, and -- per heap map -- the objects the
        body may write: named bases that are not reassigned in the loop, objects allocated inside the
        loop, or (fallback) every object of that map."""
        self.with_state(st)
        modnames = self.modified_names(body) | set(extra_names)
        effects, alloc = self.loop_effects(body, st, modnames)
        entry_alloc = st.alloc
        for nme in sorted(modnames):
            if nme in st.env:
                st.env[nme] = self.fresh_sv(st.env[nme].ty, nme)
        if effects != "ALL" and alloc:
            # objects allocated inside the loop: container maps (and the class tag) are written for them;
            # field maps of fresh objects are written only through attribute stores / constructor contracts,
            # which the effect scan has recorded.  A map that nothing in the body writes is left alone.
            kinds = getattr(self, "_alloc_kinds", set()) or {"list.", "set.", "dict."}
            if self._has_display(body):
                kinds = set(kinds) | {"list."}
            for key in list(st.heap):
                if key.startswith(tuple(kinds)) or key == "tag":
                    if key not in effects:
                        effects[key] = []
        if effects == "ALL":
            for k in list(st.heap):
                a = st.heap[k]
                st.heap[k] = fresh("loop_" + k, a.sort())
                self.heap_array_facts(k, st.heap[k], st)
                st.written.add(k)
        else:
            for key, refs in effects.items():
                a = st.heap.get(key)
                if a is None:
                    continue
                fr = fresh("loop_" + key, a.sort())
                self.heap_array_facts(key, fr, st)
                if refs is None:
                    st.heap[key] = fr
                else:
                    r = z3.Int("r!hv")
                    cond = z3.Or(r >= entry_alloc, *[r == x for x in refs])
                    st.heap[key] = self.B.name_array(z3.Lambda([r], z3.If(cond, z3.Select(fr, r), z3.Select(a, r))))
                st.written.add(key)
        if alloc or effects == "ALL":
            st.alloc = fresh("loop_alloc", z3.IntSort())
            self.assume(st.alloc >= entry_alloc)

    def _has_display(self, body):
        for n in ast.walk(ast.Module(body=list(body), type_ignores=[])):
            if isinstance(n, (ast.List, ast.ListComp, ast.GeneratorExp)):
                return True
            if isinstance(n, ast.Subscript) and isinstance(n.slice, ast.Slice):
                return True
            if isinstance(n, ast.BinOp) and isinstance(n.op, ast.Add):
                return True   # (list concatenation allocates)
        return False

    LIST_MUT = {"append", "extend", "pop", "reverse", "insert", "remove", "sort", "clear"}
    SET_MUT = {"add", "discard", "remove", "update", "clear", "pop"}

    def loop_effects(self, body, st, modnames):
        """(effects, allocates): effects is 'ALL' or dict heap-key -> list of refs | None (= all refs)."""
        eff = {}
        alloc = False
        kinds = self._alloc_kinds = set()

        def add(key, ref):
            if ref is None:
                eff[key] = None
            elif eff.get(key, []) is not None:
                eff.setdefault(key, []).append(ref)

        def base_value(expr):
            """SV of a base expression evaluated in the entry state, or None if it depends on
            something the loop changes."""
            for n in ast.walk(expr):
                if isinstance(n, ast.Name) and n.id in modnames:
                    return "dep"
            saved = (self.st, self.spec_mode)
            self.spec_mode += 1
            tmp = st.copy()
            self.st = tmp
            try:
                return self.ev(expr)
            except Exception:
                return None
            finally:
                self.st, self.spec_mode = saved

        def static_type(expr):
            """type of expr even if it depends on loop variables: evaluate in a copy of the state in which
            locals that are not bound yet get (unknown) values of their declared sidecar types"""
            saved = (self.st, self.spec_mode, self.fail_conds)
            self.spec_mode += 1
            tmp = st.copy()
            self.st = tmp
            try:
                for nm, t_ in self.c.locals.items():
                    if nm not in tmp.env:
                        tmp.env[nm] = self.fresh_sv(t_, nm)
                return self.ev(expr)
            except Exception:
                return None
            finally:
                self.st, self.spec_mode, self.fail_conds = saved

        def ctor_fields(cls, cal):
            """a constructor under contract writes the listed fields of the FRESH object only"""
            clss = self.classes.mro(cls) + self.classes.subclasses(cls)
            for m_ in (cal.modifies if cal is not None else ["self.*"]):
                fld = m_.strip().split(".", 1)[1]
                for cl in clss:
                    for fn_, ft_ in self.classes.get(cl).fields.items():
                        if fld == "*" or fn_ == fld:
                            for key_ in (f"{cl}.{fn_}", f"{cl}.{fn_}#none"):
                                if eff.get(key_, []) is not None:
                                    eff.setdefault(key_, [])

        def list_keys(v):
            ety = v.ty.args[0]
            return ["list.len", f"list.elem.{T.sort_name(ety)}", "list.elemnone"]



        try:
            for n in ast.walk(ast.Module(body=list(body), type_ignores=[])):
                if isinstance(n, ast.Attribute) and isinstance(n.ctx, ast.Store):
                    bv = base_value(n.value)
                    tv = bv if bv not in (None, "dep") else static_type(n.value)
                    if tv is None or tv == "dep":
                        return "ALL", True
                    t = tv.ty.args[0] if tv.ty.kind == "opt" else tv.ty
                    dcl = self.classes.field(t.cls, n.attr) if t.kind == "ref" else None
                    if dcl is None:
                        return "ALL", True
                    key = f"{dcl[0]}.{n.attr}"
                    add(key, None if bv == "dep" else bv.t)
                    add(key + "#none", None if bv == "dep" else bv.t)
                elif isinstance(n, ast.Subscript) and isinstance(n.ctx, ast.Store):
                    bv = base_value(n.value)
                    tv = bv if bv not in (None, "dep") else static_type(n.value)
                    if tv is None or tv == "dep":
                        return "ALL", True
                    if tv.ty.kind == "list":
                        for k in list_keys(tv):
                            add(k, None if bv == "dep" else bv.t)
                    elif tv.ty.kind == "dict":
                        kty, vty = tv.ty.args
                        add(f"dict.has.{T.sort_name(kty)}", None if bv == "dep" else bv.t)
                        add(f"dict.val.{T.sort_name(kty)}.{T.sort_name(vty)}", None if bv == "dep" else bv.t)
                    else:
                        return "ALL", True
                elif isinstance(n, ast.Call):
                    f = n.func
                    if isinstance(f, ast.Name):
                        if f.id in ("list", "set", "sorted", "reversed", "dict"):
                            alloc = True
                            kinds.add({"set": "set.", "dict": "dict."}.get(f.id, "list."))
                            continue
                        if f.id in self.c.callees:
                            callee = self.reg.get(self.c.callees[f.id])
                            if callee is None or callee.modifies:
                                return "ALL", True
                            continue
                        if f.id in self.classes.classes:
                            alloc = True
                            q = f"{self.c.class_module(f.id)}.{f.id}.__init__"
                            cal = self.reg.get(q)
                            if cal is not None and any(not m.strip().startswith("self.") for m in cal.modifies):
                                return "ALL", True
                            ctor_fields(f.id, cal)
                            continue
                        if f.id in self.st.env or f.id in self.c.opaque:
                            spec = self.c.opaque.get(f.id, {})
                            if spec.get("havoc"):
                                return "ALL", True
                            continue
                        continue  # builtin / spec function
                    if isinstance(f, ast.Attribute):
                        if isinstance(f.value, ast.Name) and f.value.id == "self" and f.attr == "__class__":
                            alloc = True
                            q = f"{self.c.class_module(self.c.owner_class)}.{self.c.owner_class}.__init__"
                            cal = self.reg.get(q)
                            if cal is None or any(not m.strip().startswith("self.") for m in cal.modifies):
                                return "ALL", True
                            ctor_fields(self.c.owner_class, cal)
                            continue
                        bv = base_value(f.value)
                        tv = bv if bv not in (None, "dep") else static_type(f.value)
                        if tv is None or tv == "dep":
                            return "ALL", True
                        t = tv.ty.args[0] if tv.ty.kind == "opt" else tv.ty
                        if t.kind == "list":
                            if f.attr in self.LIST_MUT:
                                for k in list_keys(SV(t, tv.t)):
                                    add(k, None if bv == "dep" else bv.t)
                            continue
                        if t.kind == "set":
                            if f.attr in self.SET_MUT:
                                add(f"set.has.{T.sort_name(t.args[0])}", None if bv == "dep" else bv.t)
                            else:
                                alloc = True
                                kinds.add("set.")
                            continue
                        if t.kind == "dict":
                            if f.attr in ("setdefault", "update", "pop", "popitem", "clear"):
                                return "ALL", True
                            alloc = True
                            kinds.update(("set.", "list."))
                            continue
                        if t.kind == "str":
                            if f.attr in ("splitlines", "split"):
                                alloc = True   # returns a fresh list
                                kinds.add("list.")
                            continue           # strings are values: no heap effect
                        if t.kind == "ref":
                            q = None
                            for c in self.classes.mro(t.cls):
                                qq = f"{self.c.class_module(c)}.{c}.{f.attr}"
                                if qq in self.reg:
                                    q = qq
                                    break
                            if q is None:
                                if self.classes.pure_method(t.cls, f.attr):
                                    continue
                                fv = self.classes.field(t.cls, f.attr)
                                if fv is not None:
                                    spec = self.c.opaque.get(f"{t.cls}.{f.attr}", {})
                                    if spec.get("havoc"):
                                        return "ALL", True
                                    continue
                                return "ALL", True
                            cal = self.reg[q]
                            if cal.modifies:
                                # a callee writing fields of its parameters: `<param>.<field>` -> that field map
                                # (of any object: the actual argument is not tracked here); anything else -> ALL
                                for m_ in cal.modifies:
                                    parts = m_.strip().split(".")
                                    pty = cal.params.get(parts[0]) if len(parts) == 2 else None
                                    pt = ty(pty) if isinstance(pty, str) else pty
                                    if pt is not None and pt.kind == "opt":
                                        pt = pt.args[0]
                                    if pt is None or pt.kind != "ref" or parts[1] == "*":
                                        return "ALL", True
                                    dcl = self.classes.field(pt.cls, parts[1])
                                    if dcl is None:
                                        return "ALL", True
                                    add(f"{dcl[0]}.{parts[1]}", None)
                                    add(f"{dcl[0]}.{parts[1]}#none", None)
                            continue
                        return "ALL", True
        except Exception:
            return "ALL", True
        return eff, alloc

    def old_alloc_lower(self, st):
        return self.alloc0

    def check_invs(self, spec, k, phase, st, line):
        self.with_state(st)
        for i, inv in enumerate(spec.get("inv", [])):
            g = self.spec_eval(inv)
            self.emit("loop%d" % k, f"inv{i}.{phase}", g, line, st)

    def assume_invs(self, spec, st):
        self.with_state(st)
        for inv in spec.get("inv", []):
            self.assume(self.spec_eval(inv))

    def run_ghost(self, stmts, st):
        """Ghost statements from the sidecar (simple assignments to ghost locals)."""
        self.with_state(st)
        for g in stmts:
            tree = ast.parse(g.strip()).body[0]
            self.spec_mode += 1
            try:
                if isinstance(tree, ast.Assign):
                    v = self.ev(tree.value)
                    self.assign(tree.targets[0], v, 0)
                elif isinstance(tree, ast.AugAssign):
                    cur = self.ev(tree.target)
                    v = self.ev(tree.value)
                    self.assign(tree.target, self.binop(tree.op, cur, v, 0), 0)
                elif isinstance(tree, ast.Expr) and isinstance(tree.value, ast.Call):
                    self.ev(self.expand_macros(tree.value, self.c))
                elif isinstance(tree, ast.Assert):
                    # ghost assertion: an obligation here, a known fact afterwards
                    g = self.truthy(self.ev(self.expand_macros(tree.test, self.c)))
                    self.obs.append(Ob(self.oname("ghost", "assert") + f"#{next(_ctr)}",
                                       list(self.st.pc) + list(self.guards), g, None, "ghost-assert"))
                    self.assume(g)
                else:
                    raise Unsupported("ghost statement form")
            finally:
                self.spec_mode -= 1

    def st_While(self, s, st):
        k, spec = self.loop_spec(s)
        return self.generic_loop(s, st, k, spec,
                                 guard=lambda: self.truthy(self.ev(s.test)),
                                 pre_body=lambda: None, body=s.body, orelse=s.orelse, extra=())

    def st_For(self, s, st):
        k, spec = self.loop_spec(s)
        self.with_state(st)
        it = s.iter
        ivar = f"__i{k}"
        enum_var = None
        tgt = s.target
        mode = None
        if isinstance(it, ast.Call) and isinstance(it.func, ast.Name) and it.func.id == "enumerate":
            if not (isinstance(tgt, ast.Tuple) and len(tgt.elts) == 2):
                raise Unsupported("enumerate target")
            enum_var, tgt = tgt.elts[0], tgt.elts[1]
            it = it.args[0]
        if isinstance(it, ast.Call) and isinstance(it.func, ast.Name) and it.func.id == "range":
            args = [self.coerce(self.ev(a), T.INT).t for a in it.args]
            lo, hi = (z3.IntVal(0), args[0]) if len(args) == 1 else (args[0], args[1])
            if len(args) == 3:
                raise Unsupported("range step")
            mode = ("range", lo, hi)
        else:
            seq = self.ev(it)
            if seq.ty.kind == "opt":
                self.deref_check(seq, s.lineno)
                seq = SV(seq.ty.args[0], seq.t)
            if seq.ty.kind == "list":
                mode = ("list", seq)
            elif seq.ty.kind == "tuple":
                # fixed arity: unroll
                outs = [Outcome("normal", st)]
                res = []
                for item in seq.t:
                    nxt = []
                    for o in outs:
                        if o.kind != "normal":
                            res.append(o)
                            continue
                        self.with_state(o.st)
                        self.assign(tgt, item, s.lineno)
                        for b in self.run_block(s.body, o.st):
                            if b.kind == "continue":
                                b.kind = "normal"
                            if b.kind == "break":
                                b.kind = "normal"
                                res.append(b)
                                continue
                            nxt.append(b)
                    outs = nxt
                for o in outs:
                    if o.kind == "normal" and s.orelse:
                        res.extend(self.run_block(s.orelse, o.st))
                    else:
                        res.append(o)
                return res
            elif seq.ty.kind == "set":
                mode = ("set", seq)
            else:
                raise Unsupported(f"for over {seq.ty} at line {s.lineno}")
        pre = self.split_failures(st, s.lineno)
        st.env[ivar] = SV(T.INT, z3.IntVal(0) if mode[0] != "range" else mode[1])
        if mode[0] == "set":
            return pre + self.set_loop(s, st, k, spec, mode[1], tgt)

        def guard():
            i = self.st.env[ivar].t
            if mode[0] == "range":
                return i < mode[2]
            return i < self.list_len(mode[1].t)

        def pre_body():
            i = self.st.env[ivar].t
            if mode[0] == "range":
                self.assign(tgt, SV(T.INT, i), s.lineno)
            else:
                self.assign(tgt, self.list_get(mode[1], i), s.lineno)
            if enum_var is not None:
                self.assign(enum_var, SV(T.INT, i), s.lineno)
            self.st.env[ivar] = SV(T.INT, i + 1)

        # give the loop targets (unknown) values of the right type before the first iteration, so that
        # the write-effect scan and invariants can type expressions that mention them
        self.with_state(st)
        try:
            if mode[0] == "range":
                self.assign(tgt, SV(T.INT, fresh("it", z3.IntSort())), s.lineno)
            else:
                self.assign(tgt, self.fresh_sv(mode[1].ty.args[0], "it"), s.lineno)
            if enum_var is not None:
                self.assign(enum_var, SV(T.INT, fresh("idx", z3.IntSort())), s.lineno)
        except Unsupported:
            pass
        self.fail_conds = []
        extra = [ivar] + [n.id for n in ast.walk(s.target) if isinstance(n, ast.Name)]
        spec = dict(spec)
        spec.setdefault("auto_inv", [])
        auto = [lambda: self.st.env[ivar].t >= (0 if mode[0] != "range" else mode[1])]
        if mode[0] == "list":
            auto.append(lambda: self.st.env[ivar].t <= self.list_len(mode[1].t))
        elif mode[0] == "range":
            auto.append(lambda: z3.Or(self.st.env[ivar].t <= mode[2], mode[2] < mode[1]))
        return pre + self.generic_loop(s, st, k, spec, guard, pre_body, s.body, s.orelse, extra, auto_inv=auto,
                                       for_loop=True)

    def generic_loop(self, s, st, k, spec, guard, pre_body, body, orelse, extra, auto_inv=(), for_loop=False):
        line = s.lineno
        if not spec and not self.c.allow_unannotated_loops:
            raise Unsupported(f"loop {k} at line {line} has no invariant in the sidecar")
        # ghost initialisation, then invariants on entry
        self.run_ghost(spec.get("ghost_init", []), st)
        self.check_invs(spec, k, "entry", st, line)
        # havoc + assume
        ghost_names = [g.split("=")[0].strip().rstrip("+-*") for g in spec.get("ghost_init", [])]
        hst = st.copy()
        self.havoc_loop(hst, body + list(orelse), list(extra) + ghost_names)
        self.assume_invs(spec, hst)
        self.with_state(hst)
        for a in auto_inv:
            self.assume(a())
        self.run_ghost(spec.get("ghost_head", []), hst)
        self.with_state(hst)
        res = []
        # variant at loop head
        var0 = None
        if spec.get("dec"):
            var0 = self.coerce(self.spec_eval(spec["dec"], raw=True), T.INT).t
        g = guard()
        pre_out = self.split_failures(hst, line)
        res.extend(pre_out)
        st_in, st_out = hst.copy(), hst
        st_in.pc.append(g)
        st_out.pc.append(z3.Not(g))
        fin = self.feasible(st_in)
        self.covers.append((f"loop{k}.body", fin))
        if fin:
            self.with_state(st_in)
            pre_body()
            res.extend(self.split_failures(st_in, line))
            for o in self.run_block(body, st_in):
                if o.kind in ("normal", "continue"):
                    self.run_ghost(spec.get("ghost_step", []), o.st)
                    self.check_invs(spec, k, "preserved", o.st, line)
                    if var0 is not None:
                        self.with_state(o.st)
                        var1 = self.coerce(self.spec_eval(spec["dec"], raw=True), T.INT).t
                        self.emit("loop%d" % k, "variant.decreases", z3.And(var0 >= 0, var1 < var0), line, o.st)
                    elif not for_loop and self.c.check_termination:
                        self.emit("loop%d" % k, "variant.missing", z3.BoolVal(False), line, o.st)
                elif o.kind == "break":
                    o.kind = "normal"
                    res.append(o)
                else:
                    res.append(o)
        if self.feasible(st_out):
            if orelse:
                res.extend(self.run_block(orelse, st_out))
            else:
                res.append(Outcome("normal", st_out))
        return res

    def set_loop(self, s, st, k, spec, seq, tgt):
        raise Unsupported("iteration over a set (order is hash dependent): handled by the frame analysis")

    # =============================================================================================
    # function entry / exit
    # =============================================================================================
    def verify(self):
        c = self.c
        st = State()
        st.alloc = z3.Const("alloc0", z3.IntSort())
        self.alloc0 = st.alloc
        self.st = st
        self.assume(st.alloc > 1)
        self.old = State()
        self.old.alloc = st.alloc
        # parameters
        argnames = [a.arg for a in self.fdef.args.args]
        for a in self.fdef.args.kwonlyargs:
            argnames.append(a.arg)
        for nme in argnames:
            if nme not in c.params:
                raise Unsupported(f"parameter {nme} has no declared type")
            st.env[nme] = self.fresh_sv(c.params[nme], nme)
        if self.fdef.args.vararg or self.fdef.args.kwarg:
            for a in (self.fdef.args.vararg, self.fdef.args.kwarg):
                if a is not None:
                    if a.arg not in c.params:
                        raise Unsupported(f"parameter *{a.arg} has no declared type")
                    st.env[a.arg] = self.fresh_sv(c.params[a.arg], a.arg)
        if "self" in st.env and c.self_exact_class:
            tag = self.harr("tag", z3.IntSort(), z3.IntSort())
            self.assume(z3.Select(tag, st.env["self"].t) == self.classes.ids[c.self_exact_class])
        self.inputs = {n: v for n, v in st.env.items()}
        for r in c.requires:
            self.assume(self.spec_eval(r))
        self.run_ghost(getattr(c, "ghost_pre", []) or [], st)
        self.old.env = dict(st.env)
        self.old.heap = dict(st.heap)
        self.old.pc = list(st.pc)
        pre_pc = list(st.pc)
        outs = self.run_block(self.fdef.body, st)
        n_paths = 0
        for o in outs:
            n_paths += 1
            if o.kind in ("normal", "return"):
                res = o.value if o.kind == "return" else lift(None)
                self.exit_normal(o.st, res, o.line)
            elif o.kind == "raise":
                self.exit_raise(o.st, o.exc, o.line)
            else:
                raise Unsupported("break/continue outside loop")
        self.n_paths = n_paths
        self.pre_pc = pre_pc
        return self.obs

    def exit_normal(self, st, res, line):
        c = self.c
        self.with_state(st)
        if c.returns is not None and res is not None:
            try:
                res = self.coerce(res, c.returns)
            except Exception:
                pass
        self.run_ghost(c.ghost_end, st)
        # vacuity guard per exit path: False must NOT be derivable from what is known on this path (a contradictory
        # context -- e.g. from an inconsistent callee contract or heap model -- would make every postcondition pass)
        self.emit("reach", "exit", z3.BoolVal(False), line, st)
        # in a postcondition a parameter name means the value passed in (rebinding is local)
        pbind = {n: v for n, v in self.inputs.items()}
        for i, e in enumerate(c.ensures):
            g = self.spec_eval(e, benv=pbind, result=res)
            self.emit("post", f"ensures{i}", g, line, st)
        for i, e in enumerate(getattr(c, "ensures_internal", []) or []):
            g = self.spec_eval(e, benv=pbind, result=res)
            self.emit("post", f"internal{i}", g, line, st)
        for exc, cond in c.raises.items():
            cnd = self.spec_eval(cond, st=None, old_state=self.old, benv=None)
            # evaluate the raise condition on the PRE-state
            cnd = self.eval_on_old(cond)
            self.emit("raises", f"{exc}.complete", z3.Not(cnd), line, st)
        self.frame_obligations(st, line)

    def eval_on_old(self, cond):
        saved = self.st
        tmp = State()
        tmp.env = dict(self.old.env)
        tmp.heap = dict(self.old.heap)
        tmp.pc = saved.pc
        tmp.alloc = self.old.alloc
        try:
            return self.spec_eval(cond, st=tmp)
        finally:
            self.st = saved
            for k2, v2 in tmp.heap.items():
                if k2 not in self.old.heap:
                    self.old.heap[k2] = v2
                    if k2 not in saved.heap:
                        saved.heap[k2] = v2

    def exit_raise(self, st, exc, line):
        c = self.c
        self.with_state(st)
        may = getattr(c, "raises_may", {})
        if exc in c.raises or exc in may:
            cnd = self.eval_on_old(c.raises[exc] if exc in c.raises else may[exc])
            self.emit("raises", f"{exc}.justified", cnd, line, st)
        else:
            self.emit("raises", f"{exc}.unlicensed", z3.BoolVal(False), line, st)

    def frame_obligations(self, st, line):
        """Every heap map written on this path must be covered by a modifies clause; for covered maps,
        all pre-existing objects other than the named ones keep their values."""
        c = self.c
        if c.modifies is None:
            return
        allowed = {}   # key -> list of refs allowed to change ; '*' for anything
        whole = set()  # field maps that may change for every object: field(Class.f)
        self.with_state(st)
        for m in c.modifies:
            m = m.strip()
            if m == "heap":
                return
            if m.startswith("field(") and m.endswith(")"):
                cls_, fld_ = m[6:-1].split(".")
                dcl = self.classes.field(cls_, fld_)
                whole.add(f"{dcl[0]}.{fld_}")
                whole.add(f"{dcl[0]}.{fld_}#none")
                continue
            if m.startswith(("list(", "set(", "dict(")):
                kind, inner = m.split("(", 1)
                v = self.eval_old_raw(inner[:-1])
                ety = v.ty.args[0]
                if kind == "list":
                    for key in ("list.len", f"list.elem.{T.sort_name(ety)}", "list.elemnone"):
                        allowed.setdefault(key, []).append(v.t)
                elif kind == "set":
                    allowed.setdefault(f"set.has.{T.sort_name(ety)}", []).append(v.t)
                else:
                    kty, vty = v.ty.args
                    allowed.setdefault(f"dict.has.{T.sort_name(kty)}", []).append(v.t)
                    allowed.setdefault(f"dict.val.{T.sort_name(kty)}.{T.sort_name(vty)}", []).append(v.t)
                continue
            objx, fld = m.rsplit(".", 1)
            o = self.eval_old_raw(objx)
            t = o.ty.args[0] if o.ty.kind == "opt" else o.ty
            clss = self.classes.mro(t.cls) + self.classes.subclasses(t.cls)
            for cl in clss:
                for f, ft in self.classes.get(cl).fields.items():
                    if fld == "*" or f == fld:
                        allowed.setdefault(f"{cl}.{f}", []).append(o.t)
                        allowed.setdefault(f"{cl}.{f}#none", []).append(o.t)
        for key in sorted(st.written):
            if key in ("tag",) or key in whole:
                continue
            new = st.heap[key]
            old = self.old.heap.get(key)
            if old is None:
                continue
            if new is old or new.eq(old):
                continue
            r = z3.Int("r!frame")
            excl = allowed.get(key, [])
            cond = z3.And(r > 0, r < self.alloc0, *[r != e for e in excl])
            goal = z3.ForAll([r], z3.Implies(cond, z3.Select(new, r) == z3.Select(old, r)))
            label = key.replace("#", "-")
            self.emit("frame", label, goal, line, st)

    def eval_old_raw(self, expr):
        saved = self.st
        tmp = State()
        tmp.env = dict(self.old.env)
        tmp.heap = dict(self.old.heap)
        tmp.pc = saved.pc
        tmp.alloc = self.old.alloc
        try:
            return self.spec_eval(expr, st=tmp, raw=True)
        finally:
            self.st = saved


class _MergedContract:
    """Name resolution for a callee's clause evaluated inside a caller: callee's sidecar first."""

    def __init__(self, caller, callee):
        self._a, self._b = caller, callee

    def __getattr__(self, k):
        if k in ("globals", "callees", "opaque", "eq_overrides", "locals"):
            d = dict(getattr(self._a, k))
            d.update(getattr(self._b, k))
            return d
        if k in ("owner_class",):
            return self._b.owner_class
        return getattr(self._a, k)

    def class_module(self, c):
        return self._a.class_module(c)
