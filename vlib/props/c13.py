from vlib import framework as fw
from vlib.monitors import sugarmon

RULE = ("{n} sugared rule shapes combining ? * + [sep] ( ) on terminals, non-terminals and groups (nested groups, "
        "repetition of groups, separators, several uses per grammar, elements that evaluate to empty lists) and {g} "
        "greedy shapes x every input over the token alphabet up to length {m}; language (GLR, also under prefer_shifts) "
        "and results (GLR call_actions on every tree, LR) against the documented expansion (vlib/spec/sugar.py); "
        "greedy: single maximal-consumption tree; non-trivial = sentence of >= 2 tokens")


def check(run, only=None):
    if only in (None, "B"):
        params = {"max_len": 5 if run.tier == "quick" else 7}
        items = [("C13", (i, False), params) for i in range(len(sugarmon.SHAPES))] + \
                [("C13", (i, True), params) for i in range(len(sugarmon.GREEDY))]
        # the same shapes with the sugared rules in an imported grammar file (every 3rd shape)
        items += [("C13", (i, False), dict(params, imported=True, max_len=min(params["max_len"], 4)))
                  for i in range(0, len(sugarmon.SHAPES), 3)]
        results = fw.pmap(sugarmon.sugar_worker, items, chunksize=1)
        out = fw.merge_worker_results(results, RULE.format(n=len(sugarmon.SHAPES), g=len(sugarmon.GREEDY),
                                                            m=params["max_len"]))
        run.add_bounded(out)
    if only in (None, "P"):
        from vlib.props import pcommon
        from vlib.companions import parserfuncs as pf
        import contracts.actions as ca
        pcommon.add_proof(run, "C13", ca.ACTIONS_C13, [pf.run_actions],
                          "built-in collecting actions: collect_first(_sep) return the accumulated list unchanged for a "
                          "missing element and otherwise a NEW list = accumulated + [element] (separator dropped); "
                          "collect_right_first(_sep) a new list [element] + tail; pass_single the only match, pass_none "
                          "None, pass_empty a new empty list; no argument is modified")
