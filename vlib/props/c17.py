from vlib.props import glr_props


def check(run, only=None):
    if only in (None, "B"):
        run.add_bounded(glr_props.run_bounded("C17", run.tier))
    if only in (None, "P"):
        from vlib.props import pcommon
        from vlib.companions import parserfuncs as pf
        import contracts.scanner as cs
        pcommon.add_proof(run, "C17", cs.SCANNER_C17 + cs.SCANNER_C07, [pf.run_next_tokens, pf.run_scanner],
                          "_next_tokens (no custom token recognition, lexical disambiguation off): the end-of-input marker "
                          "STOP is offered iff STOP is expected in the state and (consume_input is off or the position is "
                          "the end of the input) -- the switch consume_input=False turns; at or past the end nothing but "
                          "STOP is offered; the head is not moved; verified against the contracts of _token_recognition and "
                          "_lexical_disambiguation")
