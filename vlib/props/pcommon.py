"""Shared wiring of the proved parts (stratum P) and their concrete companions into a property check."""
from vlib import framework as fw
from vlib.pyvc import api

TRUSTED = ["pyvc encoding of Python semantics (vlib/pyvc)", "z3 5.1 / cvc5 1.0.3 / z3 4.8.12",
           "sidecar type environments in contracts/"]


def add_proof(run, pid, names, companions, proved_text):
    merged = {"violations": [], "covers": [], "aliases": {}}
    for f in companions:
        c = f()
        merged["violations"].extend(c["violations"])
        merged["covers"].extend(c.get("covers", []))
        merged["aliases"].update(c.get("aliases", {}))
        res = {"evaluations": c["evaluations"], "nontrivial": c["nontrivial"], "samples": c["samples"][:1],
               "rule": c.get("rule"), "violations": [fw.Violation(v[0], v[1], v[2], case=v[3]) for v in c["violations"]]}
        run.add_bounded(res)
    api.load_sidecars()
    pres = api.verify(names, pid=pid, canaries=True, lock=api.load_lock())
    api.attach_companion_witnesses(pres, merged)
    run.add_proof(pres)
    for t in TRUSTED:
        if t not in run.trusted:
            run.trusted.append(t)
    run.extra["proved_clauses"] = proved_text
