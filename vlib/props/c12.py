import itertools

from vlib import corpus
from vlib import framework as fw
from vlib.monitors import cachemon
from vlib.scope import grammars

RULE = ("histories up to length {h} over {{construct Parser / GLRParser with 3 option vectors each, edit root, edit "
        "imported file, edit a file imported by the imported file, touch root, touch that leaf, pglr compile}} on a three-file import chain in a scratch directory (logical "
        "mtimes); after every construction the parser's behaviour on {n} inputs is compared with a parser built from a "
        "cache-free copy; every {s}-th byte-prefix of a written .pgc as the state after a crash; save/load round trip "
        "and byte-identical re-save over every {g}-th grammar of Gamma(3,2) + corpus; non-trivial = construction that is "
        "not the first operation")


def check(run, only=None):
    if only in (None, "B"):
        quick = run.tier == "quick"
        ops = list(cachemon.BUILDS) + cachemon.OTHER
        hists = [h for L in (1, 2) for h in itertools.product(ops, repeat=L) if h[-1] in cachemon.BUILDS]
        h3 = [h for h in itertools.product(ops, repeat=3) if h[-1] in cachemon.BUILDS]
        hists += h3[::7] if quick else h3
        params = {}
        results = fw.pmap(cachemon.history_worker, [("C12", h, params) for h in hists])
        stride = 41 if quick else 7
        out = fw.merge_worker_results(results, RULE.format(h=3, n=len(cachemon.INPUTS), s=stride, g=9 if quick else 2))
        out["extra"]["histories"] = len(hists)
        run.add_bounded(out)
        results = fw.pmap(cachemon.crash_worker, [("C12", (b, stride), params) for b in ("P", "G")], chunksize=1)
        o2 = fw.merge_worker_results(results, "")
        o2["rule"] = None
        run.add_bounded(o2)
        gs = list(grammars(3, 2))[::(9 if quick else 2)] + corpus.classic()
        results = fw.pmap(cachemon.roundtrip_worker, [("C12", g, params) for g in gs])
        o3 = fw.merge_worker_results(results, "")
        o3["rule"] = None
        run.add_bounded(o3)
    if only in (None, "P"):
        from vlib.props import pcommon
        from vlib.companions import persistc
        import contracts.persist as cp
        pcommon.add_proof(run, "C12", cp.PERSIST_C12, [persistc.run],
                          "loading a cached table: the actions of one cell are rebuilt record by record -- the action code as "
                          "written, the state with the recorded id or None when the record has none (never the state of "
                          "another record), the production likewise (the decoding loop of table_from_serializable, a "
                          "P-block; Action.__init__)")
