from vlib.props import pcommon
from vlib import framework as fw
from vlib.monitors import lexmon

RULE = ("terminal sets of 2..{k} distinct recognisers from strings {s}, regexes {r} and a custom (Python) recogniser for b+ x priorities {{0,10,15}} x at "
        "most one `prefer` x semantically neutral explicit marks (finish on strings, nofinish on regexes) x two "
        "grammar shapes (all expected at once / a sub-set expected after a prefix) x ignore_case x every input over "
        "{{a,b,c}} up to length {m}; real Grammar/Parser/GLRParser; oracle: documented order (vlib/spec/lex.py); "
        "non-trivial = at least two expected terminals match")


def check(run, only=None):
    if only in (None, "B"):
        params = {"alphabet": "abc", "max_len": 3 if run.tier == "quick" else 4}
        cs = lexmon.cases(run.tier)
        results = fw.pmap(lexmon.lex_worker, [("C07", c, params) for c in cs])
        out = fw.merge_worker_results(results, RULE.format(k=3 if run.tier == "quick" else 4, s=lexmon.STRS,
                                                            r=lexmon.REGS, m=params["max_len"]))
        out["extra"]["terminal_sets"] = len(cs)
        run.add_bounded(out)
    if only in (None, "P"):
        from vlib.companions import parserfuncs as pf
        pcommon.add_proof(run, "C07", ["parglare.parser.Parser._lexical_disambiguation", "parglare.parser.Parser._next_token",
                                       "parglare.parser.Parser._token_recognition",
                                       "parglare.parser.Parser._next_tokens@plain"],
                          [pf.run_misc, pf.run_recovery, pf.run_scanner, pf.run_next_tokens],
                          "_lexical_disambiguation: identity on <= 1 candidates, survivors are candidates of maximal match "
                          "length, prefer excludes non-preferred; _next_token: none -> None, one -> it, several -> "
                          "DisambiguationError; _token_recognition: every token is a match of a terminal expected in the state "
                          "at the head's position carrying the recogniser's result, and there is no token iff no expected "
                          "terminal matches (whatever order, priority exit and finish flags do)")
