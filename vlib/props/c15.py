from vlib import framework as fw
from vlib.monitors import reusemon

RULE = ("histories up to length {h} over {{parse a sentence, two non-sentences, an input whose action raises, an input "
        "whose recogniser raises, build another Parser/GLRParser (LALR/SLR, with/without lexical disambiguation or "
        "prefer-shifts) on the same Grammar object, a construction that fails with conflicts, one that fails in action "
        "resolution}} on parsers {{LR, LR with recovery, GLR, GLR with lexical disambiguation}} x grammar with/without a "
        "LAYOUT rule, followed by {p} probe parses on the reused instance, on the instances built meanwhile and on one "
        "built afterwards, each compared with the same parser built from a fresh Grammar; non-trivial = non-empty history")


def check(run, only=None):
    if only in (None, "B"):
        cs = reusemon.cases(run.tier)
        results = fw.pmap(reusemon.reuse_worker, [("C15", c, {}) for c in cs])
        out = fw.merge_worker_results(results, RULE.format(h=2 if run.tier == "quick" else 3, p=len(reusemon.PROBES)))
        out["extra"]["histories"] = len(cs)
        run.add_bounded(out)
    if only in (None, "P"):
        from vlib.props import pcommon
        from vlib.companions import reusec
        import contracts.reuse as cr
        pcommon.add_proof(run, "C15", cr.REUSE_C15, [reusec.run],
                          "the per-parse reset at the start of GLRParser.parse and Parser.parse (P-blocks over the run of "
                          "reset statements): whatever the previous parse left behind, the error list, the look-ahead / "
                          "shifter / last-heads lists and the expected set are NEW empty containers (each its own object), "
                          "the error-reporting / recovery flags are cleared and the frontier counter is 0")
