from vlib import framework as fw
from vlib.monitors.tablemon import table_grammar_worker
from vlib.scope import grammars

RULE = ("every reduced grammar of Gamma({n}, {r}) over nonterminals {{S,A,B}} and terminals {{'a','b'}} x {{LALR, SLR}}, "
        "table built by the real create_table without strategies, validated against the canonical LR(1) "
        "(plus the committed corpus of classic shapes and a fixed-seed pseudo-random sample of 4-5 production "
        "grammars with right-hand sides up to 3) collection and LALR(1) look-aheads of vlib.spec.lr1; termination by a budget of (4*|canonical|+8)*|symbols| "
        "LRState constructions (ten-fold on replay); non-trivial = more than 3 canonical states")


def check(run, only=None):
    if only in (None, "B"):
        n, r = (3, 2) if run.tier == "quick" else (4, 2)
        from vlib import corpus
        gs = list(grammars(n, r)) + corpus.classic() + corpus.rule_orders() + corpus.lookahead_chains() + corpus.nullable_lists() + corpus.split_siblings() + corpus.random_grammars(3000 if run.tier == "quick" else 40000)
        params = {"tier": run.tier}
        # start production = LAYOUT rule (the table of the layout sub-parser): the same grammars with S as LAYOUT
        ls = dict(params, layout_start=True)
        lgs = list(grammars(3, 2))[::1 if run.tier == "thorough" else 3] + corpus.classic() + corpus.lookahead_chains()
        results = fw.pmap(table_grammar_worker, [("C05", g, params) for g in gs] + [("C05", g, ls) for g in lgs])
        out = fw.merge_worker_results(results, RULE.format(n=n, r=r))
        out["extra"]["grammars"] = len(gs)
        run.add_bounded(out)
    if only in (None, "P"):
        from vlib.props import pcommon
        from vlib.companions import parserfuncs as pf
        import contracts.tables_items as ti
        import contracts.closure_follow as cf
        pcommon.add_proof(run, "C05", ti.ITEMS_C05 + cf.CLOSURE_C05, [pf.run_items, pf.run_closure_follow],
                          "LRItem: get_pos_inc returns None exactly at the end of the production, otherwise a NEW item with "
                          "the same production, position + 1 and a COPY of the look-ahead set (same members, different "
                          "object: the aliasing of defect 3039629 is excluded for every item); __init__ never shares a "
                          "default look-ahead set; is_at_end / symbol_at_position; "
                          "closure._new_item_follow returns a new set that is exactly FIRST(beta L) without EMPTY: the "
                          "non-EMPTY FIRST members of every symbol of beta reached through nullable symbols only, plus the "
                          "item's own look-aheads iff all of beta is nullable; FIRST sets and the item are not modified")
