from vlib.props import pcommon
from vlib import framework as fw
from vlib.monitors import dynmon

RULE = ("operator grammars with 1..{k} binary operators, every subset of productions and of operator terminals marked "
        "{{dynamic}} x every expression with up to {m} operators incl. one parenthesised group x filters {{accept all, "
        "precedence-encoding for every priority/associativity table (full marking)}} x LR and GLR, plus the same grammar "
        "with a LAYOUT rule; recorded calls checked against the protocol (one all-None call first, then only marked "
        "shifts/reductions with production and sub-results), accepted/offered counts (LR), accept-all == no filter, "
        "precedence filter == precedence climbing")


def check(run, only=None):
    if only in (None, "B"):
        params = {"max_ops": 3 if run.tier == "quick" else 4}
        cs = dynmon.cases(run.tier)
        results = fw.pmap(dynmon.dyn_worker, [("C18", c, params) for c in cs], chunksize=1)
        out = fw.merge_worker_results(results, RULE.format(k=2 if run.tier == "quick" else 3, m=params["max_ops"]))
        out["extra"]["configurations"] = len(cs)
        run.add_bounded(out)
    if only in (None, "P"):
        from vlib.companions import parserfuncs as pf
        pcommon.add_proof(run, "C18", ["parglare.parser.Parser._call_dynamic_filter", "parglare.parser.Parser._check_parser",
                                       "parglare.parser.Parser._dynamic_disambiguation"],
                          [pf.run_misc, pf.run_dyn_disambiguation],
                          "_call_dynamic_filter: unmarked decision => True without the filter, marked => the filter's verdict "
                          "for exactly these arguments; _check_parser raises iff an unhandled (non-dynamic) conflict exists; "
                          "_dynamic_disambiguation (LR): the result holds only offered actions, keeps ACCEPT and every unmarked "
                          "shift/reduction, keeps a marked shift iff the filter accepts it (a rejected one is not taken)")
