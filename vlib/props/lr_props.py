"""Bounded parts (stratum B) of C04, C08, C10 (LR half) over the shared grammar scope."""
from vlib import framework as fw
from vlib.monitors.lrmon import lr_grammar_worker
from vlib.scope import grammars

RULE = ("every reduced grammar of Gamma({n}, 2) over nonterminals {{S,A,B}} and terminals {{'a','b'}} for which "
        "Parser() constructs x {{prefer_shifts}} x {{prefer_shifts_over_empty}} x {{LALR, SLR}} x every string "
        "over {{a,b}} up to length {m} x layout variants; oracle: Earley / derivation spec over the token "
        "lattice; non-trivial = sentence or viable prefix of length >= 1")


def scope_params(tier):
    if tier == "quick":
        return {"tier": tier, "n_prods": 3, "max_len": 4, "layout_len": 3}
    return {"tier": tier, "n_prods": 4, "max_len": 5, "layout_len": 3}


def run_bounded(pid, tier):
    params = scope_params(tier)
    gs = grammars(params["n_prods"], 2)
    from vlib import corpus
    extra = corpus.classic() + corpus.rule_orders() + corpus.random_grammars(
        1200 if params["tier"] == "quick" else 12000, n_prods=(4, 5, 6))
    items = [(pid, g, params) for g in gs] + [(pid, g, dict(params, max_len=min(params["max_len"], 4))) for g in extra]
    # look-ahead chains (terminals a-d) and adjacent nullable lists: committed families, see vlib/corpus.py
    items += [(pid, g, dict(params, alphabet="abcd", max_len=3 if tier == "quick" else 4, layout_len=2))
              for g in corpus.lookahead_chains()]
    items += [(pid, g, dict(params, max_len=5)) for g in corpus.nullable_lists()]
    # Grammar(ignore_case=True): inputs mix upper and lower case
    ic = dict(params, ignore_case=True, alphabet="aAbB", max_len=3 if tier == "quick" else 4, layout_len=2)
    items += [(pid, g, ic) for g in corpus.classic() + list(grammars(3, 2))[::5 if tier == "quick" else 1]]
    # layout given by a LAYOUT rule (blanks and '#') instead of the ws parameter
    lr = dict(params, layout_rule=True, max_len=min(params["max_len"], 4), layout_len=3)
    items += [(pid, g, lr) for g in corpus.classic() + corpus.rule_orders()[::6] + list(grammars(3, 2))[::7 if tier == "quick" else 2]]
    # list (non-string) inputs: Python recognisers on list elements, no layout ('x' is an unknown element)
    if pid in ("C04", "C10"):
        li = dict(params, list_input=True, alphabet="abx", max_len=min(params["max_len"], 4), layout_len=0)
        items += [(pid, g, li) for g in corpus.classic() + list(grammars(3, 2))[::4 if tier == "quick" else 1]]
    if pid == "C08":
        # lexical overlap: forked GLR heads must keep positions and layout too
        ogs = grammars(3, 2)
        for tsname in ("prefix", "regex"):
            o = dict(params)
            o.update({"termset": tsname, "n_prods": 3, "layout_len": 3,
                      "max_len": 4 if tier == "quick" else 5})
            items.extend((pid, g, o) for g in ogs)
    results = fw.pmap(lr_grammar_worker, items)
    out = fw.merge_worker_results(results, RULE.format(n=params["n_prods"], m=params["max_len"]))
    out["extra"]["grammars"] = len(gs)
    out["extra"]["scope"] = params
    return out
