from vlib.props import glr_props
from vlib.pyvc import api


def check(run, only=None):
    comp = None
    if only in (None, "B"):
        from vlib.companions import trees as ctrees
        comp = ctrees.run()
        res = {"evaluations": comp["evaluations"], "nontrivial": comp["nontrivial"], "samples": comp["samples"],
               "rule": comp["rule"], "violations": []}
        from vlib import framework as fw
        for vv in comp["violations"]:
            res["violations"].append(fw.Violation(vv[0], vv[1], vv[2], case=vv[3]))
        run.add_bounded(res)
        run.add_bounded(glr_props.run_bounded("C03", run.tier))
    if only in (None, "P"):
        api.load_sidecars()
        import contracts.trees as ct
        pres = api.verify(ct.TREES_C03, pid="C03", canaries=True, lock=api.load_lock())
        api.attach_companion_witnesses(pres, comp)
        run.add_proof(pres)
        run.trusted.extend(["pyvc encoding of Python semantics (vlib/pyvc)", "z3 5.1 / cvc5 1.0.3 / z3 4.8.12",
                            "sidecar type environment contracts/trees.py"])
        run.extra["proved_clauses"] = ("index -> tree decoding (bucket search, mixed radix), lazy == eager counter, "
                                       "children memoised, IndexError iff index >= solutions, leaf/inner node counts")
        run.extra["bounded_clauses"] = ("Parent.solutions / ambiguities / get_first_tree (generic visitor), packing "
                                        "without duplicates, LoopError iff cyclic")
