from vlib.props import pcommon
from vlib.props import lr_props


def check(run, only=None):
    if only in (None, "B"):
        run.add_bounded(lr_props.run_bounded("C08", run.tier))
    if only in (None, "P"):
        from vlib.companions import parserfuncs as pf
        pcommon.add_proof(run, "C08", ["parglare.parser.Token.__init__", "parglare.parser.Token.__len__",
                                       "parglare.parser.Token.end_position", "parglare.grammar.StringRecognizer.__call__",
                                       "parglare.parser.Parser._skipws"],
                          [pf.run_misc, pf.run_layout],
                          "Token length/end_position arithmetic; StringRecognizer returns exactly the text standing at pos "
                          "(both case modes); _skipws never moves backwards, records exactly input[old:new] as layout, with the "
                          "ws parameter skips only ws characters and skips maximally, without layout moves nothing")
