from vlib.props import pcommon
from vlib.props import lr_props


def check(run, only=None):
    if only in (None, "B"):
        run.add_bounded(lr_props.run_bounded("C08", run.tier))
    if only in (None, "P"):
        from vlib.companions import parserfuncs as pf
        pcommon.add_proof(run, "C08", ["parglare.parser.Token.__init__", "parglare.parser.Token.__len__",
                                       "parglare.parser.Token.end_position", "parglare.grammar.StringRecognizer.__call__"],
                          [pf.run_misc],
                          "Token length/end_position arithmetic; case-sensitive StringRecognizer returns exactly the text at pos")
