from vlib.props import pcommon
from vlib import corpus
from vlib import framework as fw
from vlib.monitors import recmon
from vlib.scope import grammars

RULE = ("every reduced grammar of Gamma({n}, 2) (+ corpus) for which the parser constructs x LR(build_tree) and GLR x "
        "strategies {s} x every string over {a!r} up to length {m} (sentences, corrupted sentences and junk); "
        "plus a recovery corpus (forking grammars) on sentences up to length 5/6 corrupted by one or two junk "
        "insertions/substitutions, with and without blanks; termination by a driver-step budget; non-trivial = non-sentence with >= 2 non-blank characters")


def check(run, only=None):
    if only in (None, "B"):
        quick = run.tier == "quick"
        params = {"alphabet": "abx ", "max_len": 4 if quick else 5,
                  "strategies": ["default", "skip_one", "skip2_then_default", "inject"]}
        gs = list(grammars(3 if quick else 3, 2)) + corpus.classic() + corpus.rule_orders()
        if quick:
            gs = gs[::3] + corpus.classic()
        else:
            gs += corpus.random_grammars(2000, n_prods=(4, 5))
        p2 = dict(params, corrupted=5 if quick else 6)
        gs += [tuple((l, tuple(r)) for l, r in g) for g in corpus.RECOVERY_ALL_STRINGS]
        results = fw.pmap(recmon.rec_worker, [("C11", g, params) for g in gs] +
                          [("C11", tuple((l, tuple(r)) for l, r in g), p2) for g in corpus.RECOVERY])
        out = fw.merge_worker_results(results, RULE.format(n=3, s=params["strategies"], a=params["alphabet"],
                                                            m=params["max_len"]))
        out["extra"]["grammars"] = len(gs)
        run.add_bounded(out)
    if only in (None, "P"):
        from vlib.companions import parserfuncs as pf
        import contracts.recovery as cr
        pcommon.add_proof(run, "C11", cr.RECOVERY_C11 + ["parglare.common.ErrorContext.__init__"], [pf.run_recovery],
                          "default_error_recovery terminates for every start position (variant len - position), success "
                          "=> position strictly advanced, <= len, look-ahead set; failure => rest of the input scanned; "
                          "_next_token leaves the head untouched")
