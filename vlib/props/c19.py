from vlib.props import pcommon
from vlib import framework as fw
from vlib.monitors import strmon

RULE = ("string terminal texts: every single character of {c!r} and {n2} two-to-five character texts (dots, quotes, "
        "backslashes, regex metacharacters, names of other symbols) x inline vs declared form x ignore_case x inputs "
        "{{the text, prefixes/suffixes, neighbours, case variants}}: accepted iff equal to the literal text; KEYWORD "
        "regexes {k} x one or two string terminals from {t} plus an identifier regex x ignore_case x inputs around the "
        "texts: token choice against literal matching + word-boundary rule + string precedence")


def check(run, only=None):
    if only in (None, "B"):
        params = {}
        texts = strmon.TEXTS_1 + strmon.TEXTS_2
        results = fw.pmap(strmon.literal_worker, [("C19", t, params) for t in texts], chunksize=2)
        out = fw.merge_worker_results(results, RULE.format(c=strmon.CHARS, n2=len(strmon.TEXTS_2), k=strmon.KEYWORD_RES,
                                                            t=strmon.KW_TEXTS))
        run.add_bounded(out)
        results = fw.pmap(strmon.keyword_worker, [("C19", c, params) for c in strmon.keyword_cases(run.tier)])
        o2 = fw.merge_worker_results(results, "")
        o2["rule"] = None
        run.add_bounded(o2)
    if only in (None, "P"):
        from vlib.companions import parserfuncs as pf
        pcommon.add_proof(run, "C19", ["parglare.grammar.StringRecognizer.__call__"], [pf.run_misc],
                          "case-sensitive StringRecognizer matches iff the text at pos equals its value, for every text")
