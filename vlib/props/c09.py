from vlib import corpus
from vlib import framework as fw
from vlib.monitors import actmon
from vlib.scope import grammars

RULE = ("every reduced grammar of Gamma({n}, 2) (+ corpus) for which the LR parser constructs x named matches "
        "{{none, first symbol with =, last symbol with ?=, both}} x action tables {{none, one recording function per "
        "rule, per-alternative lists}} x every accepted input up to length {m}: on-the-fly result, call_actions on the "
        "built tree and GLR call_actions (single-tree forests) against the result computed from the derivation tree and "
        "the generated grammar text; plus built-in collect/optional results on sugar grammars")


def check(run, only=None):
    if only in (None, "B"):
        n = 3
        params = {"max_len": 4 if run.tier == "quick" else 5, "sugar_len": 5 if run.tier == "quick" else 6}
        gs = list(grammars(n, 2)) + corpus.classic()
        if run.tier == "thorough":
            gs += corpus.random_grammars(4000, n_prods=(4, 5, 6))
        results = fw.pmap(actmon.act_worker, [("C09", g, params) for g in gs])
        out = fw.merge_worker_results(results, RULE.format(n=n, m=params["max_len"]))
        run.add_bounded(out)
        results = fw.pmap(actmon.sugar_worker, [("C09", i, params) for i in range(len(actmon.SUGAR))])
        o2 = fw.merge_worker_results(results, "")
        o2["rule"] = None
        run.add_bounded(o2)
    if only in (None, "P"):
        from vlib.props import pcommon
        from vlib.companions import parserfuncs as pf
        import contracts.actions as ca
        pcommon.add_proof(run, "C09", ca.ACTIONS_C13, [pf.run_actions],
                          "the built-in collecting actions never modify a sub-result they are handed (frame "
                          "obligations: empty modifies set, results are fresh lists), which is what makes their result "
                          "independent of how often and in which order GLR / call_actions invokes them on shared sub-results")
