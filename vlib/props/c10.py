from vlib.props import glr_props, lr_props


def check(run, only=None):
    if only in (None, "B"):
        run.add_bounded(glr_props.run_bounded("C10", run.tier))
        run.add_bounded(lr_props.run_bounded("C10", run.tier))
