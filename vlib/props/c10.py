from vlib.props import pcommon
from vlib.props import glr_props, lr_props


def check(run, only=None):
    if only in (None, "B"):
        run.add_bounded(glr_props.run_bounded("C10", run.tier))
        run.add_bounded(lr_props.run_bounded("C10", run.tier))
    if only in (None, "P"):
        from vlib.companions import parserfuncs as pf
        import contracts.errors as ce
        pcommon.add_proof(run, "C10", ce.ERRORS_C10, [pf.run_errors],
                          "pos_to_line_col (line = 1 + newlines before, column = distance to the line start), "
                          "get_line_col_at_position never raises for pos >= 0 and locates every in-range position, "
                          "Location.is_eof iff position == len(input), ErrorContext span = [position, position]")
