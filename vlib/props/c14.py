from vlib import corpus
from vlib import framework as fw
from vlib.monitors import layoutmon
from vlib.scope import grammars

RULE = ("reduced grammars of Gamma(3, 2) (every {st}-th) + corpus, single-character terminals (token boundaries are layout "
        "independent) x LR/GLR x LALR/SLR x layout by ws / LAYOUT rule matching ws runs / LAYOUT rule with line and "
        "nested block comments x every token string up to length {m} (sentences and non-sentences) x every filler at "
        "every single boundary and at all boundaries; one parser object is reused for all inputs; ws vs LAYOUT-ws "
        "compared on results, node positions, layout_content and error positions")


def check(run, only=None):
    if only in (None, "B"):
        quick = run.tier == "quick"
        stride = 9 if quick else 2
        params = {"max_len": 3 if quick else 4}
        gs = list(grammars(3, 2))[::stride] + corpus.classic()[:8]
        results = fw.pmap(layoutmon.layout_worker, [("C14", g, params) for g in gs])
        out = fw.merge_worker_results(results, RULE.format(st=stride, m=params["max_len"]))
        out["extra"]["grammars"] = len(gs)
        run.add_bounded(out)
    if only in (None, "P"):
        from vlib.props import pcommon
        from vlib.companions import parserfuncs as pf
        pcommon.add_proof(run, "C14", ["parglare.parser.Parser._skipws"], [pf.run_layout],
                          "_skipws: position never decreases; layout_content_ahead == input[old:new]; ws parameter: only ws "
                          "characters skipped, maximally; LAYOUT rule: position and content as reported by the sub-parser "
                          "(trusted); no layout configured: nothing moves")
