from vlib.props import lr_props


def check(run, only=None):
    if only in (None, "B"):
        run.add_bounded(lr_props.run_bounded("C04", run.tier))
