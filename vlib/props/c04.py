from vlib.props import pcommon
from vlib.props import lr_props


def check(run, only=None):
    if only in (None, "B"):
        run.add_bounded(lr_props.run_bounded("C04", run.tier))
    if only in (None, "P"):
        from vlib.companions import parserfuncs as pf
        pcommon.add_proof(run, "C04", ["parglare.parser.Parser._check_parser"], [pf.run_misc],
                          "_check_parser: SRConflicts / RRConflicts raised iff an unhandled conflict exists (construction is "
                          "gated by the table's conflict lists)")
