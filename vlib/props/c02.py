from vlib.props import glr_props


def check(run, only=None):
    if only in (None, "B"):
        run.add_bounded(glr_props.run_bounded("C02", run.tier))
    if only in (None, "P"):
        from vlib.props import pcommon
        from vlib.companions import parserfuncs as pf
        pcommon.add_proof(run, "C02", ["parglare.glr.Parent.merge", "parglare.glr.GSSNode.create_link"], [pf.run_gss],
                          "GSS links: create_link creates a link to a root node iff there was none (keyed by the root's id) "
                          "and otherwise leaves the existing link in place and appends the new link's alternatives to it "
                          "(Parent.merge: old alternatives kept in order, the other's appended in order, cached count "
                          "invalidated); links to other roots are untouched -- no alternative is lost when a second path "
                          "reaches the same pair of nodes")
