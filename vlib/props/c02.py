from vlib.props import glr_props


def check(run, only=None):
    if only in (None, "B"):
        run.add_bounded(glr_props.run_bounded("C02", run.tier))
