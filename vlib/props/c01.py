from vlib.props import glr_props


def check(run, only=None):
    if only in (None, "B"):
        run.add_bounded(glr_props.run_bounded("C01", run.tier))
    if only in (None, "P"):
        from vlib.props import pcommon
        from vlib.companions import parserfuncs as pf
        import contracts.gss as cg
        pcommon.add_proof(run, "C01", cg.GSS_C01, [pf.run_gss],
                          "GSSNode: the node id is a function of (frontier, state id); for_token returns this very node "
                          "when it has no look-ahead yet or already this one, otherwise a NEW node that differs in nothing "
                          "but the token (state, position, frontier, id, input, layout before and after) and holds a copy "
                          "of the parent links; Parent.__init__ (an omitted end position means an empty span -- 0 is a "
                          "position --, given alternatives adopted and re-pointed, a token gives one leaf), "
                          "Parent.clone_with_root (same span/token/head from another root, with its own list of the same "
                          "alternatives), Parent.merge and GSSNode.create_link (see C02)")
