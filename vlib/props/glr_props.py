"""Bounded parts (stratum B) of C01, C02, C03, C10 (GLR half), C17 over the shared grammar scope."""
from vlib import framework as fw
from vlib.monitors.glrmon import glr_grammar_worker
from vlib.scope import grammars

RULES = {
    "C01": "every reduced grammar of Gamma(n_p, 2) over nonterminals {S,A,B} and terminals {'a','b'} "
           "(one per renaming class) x {LALR, SLR} x every string over {a,b} up to max_len x layout "
           "variants {plain, spaced, newlines}; oracle: Earley recognition / derivation check over the "
           "token lattice (vlib.spec.cfg); non-trivial = the input is a sentence or a viable prefix of "
           "length >= 1 exists",
}


def scope_params(tier):
    if tier == "quick":
        return {"tier": tier, "n_prods": 3, "max_len": 4, "layout_len": 3}
    return {"tier": tier, "n_prods": 4, "max_len": 5, "layout_len": 4}


def run_bounded(pid, tier):
    params = scope_params(tier)
    gs = grammars(params["n_prods"], 2)
    from vlib import corpus
    extra = corpus.classic() + corpus.rule_orders() + corpus.random_grammars(
        1200 if params["tier"] == "quick" else 12000, n_prods=(4, 5, 6))
    items = [(pid, g, params) for g in gs] + [(pid, g, dict(params, max_len=min(params["max_len"], 4))) for g in extra]
    items += [(pid, g, dict(params, max_len=5 if tier == "quick" else 6)) for g in corpus.nullable_lists()]
    items += [(pid, g, dict(params, alphabet="abcd", max_len=3 if tier == "quick" else 4, layout_len=2))
              for g in corpus.lookahead_chains()]
    # lexical overlap between terminals: the same grammar shapes over overlapping recognisers
    ov = dict(params)
    ov["n_prods"] = 3 if tier == "quick" else 3
    ogs = grammars(ov["n_prods"], 2)
    for tsname in ("prefix", "regex", "regex2"):
        o = dict(ov)
        o["termset"] = tsname
        o["max_len"] = params["max_len"] if tier == "thorough" else 4
        o["layout_len"] = 2
        items.extend((pid, g, o) for g in ogs)
    # a terminal that is a proper prefix of the other and can follow itself ('a' / 'aa'): runs of a's with blanks
    o = dict(ov, termset="prefix2", alphabet="a ", max_len=6 if tier == "quick" else 8, layout_len=0)
    items.extend((pid, g, o) for g in ogs if {"a", "b"} <= {x for _, r in g for x in r})
    # layout given by a LAYOUT rule (blanks and '#') instead of the ws parameter
    lr = dict(params, layout_rule=True, max_len=min(params["max_len"], 4), layout_len=2)
    items.extend((pid, g, lr) for g in corpus.classic() + list(ogs)[::7 if tier == "quick" else 2])
    # Grammar(ignore_case=True): inputs mix upper and lower case
    ic = dict(params, ignore_case=True, alphabet="aAbB", max_len=3 if tier == "quick" else 4, layout_len=2)
    if pid in ("C01", "C10"):   # (forest-level properties would only repeat the same forests under other keys)
        items.extend((pid, g, ic) for g in corpus.classic() + list(ogs)[::5 if tier == "quick" else 1])
    # list (non-string) inputs: Python recognisers on list elements, no layout ('x' is an unknown element)
    if pid in ("C01", "C10"):
        li = dict(params, list_input=True, alphabet="abx", max_len=min(params["max_len"], 4), layout_len=0)
        items.extend((pid, g, li) for g in corpus.classic() + list(ogs)[::4 if tier == "quick" else 1])
    # C17 quantifies over lexical_disambiguation on and off (GLR default: off)
    if pid == "C17":
        ld = dict(params, lexdis=True, max_len=min(params["max_len"], 4))
        items.extend((pid, g, ld) for g in corpus.classic() + list(ogs)[::3 if tier == "quick" else 1])
        # ... and the token list may go through a custom_token_recognition callable
        cr = dict(params, custom_recognition=True, max_len=min(params["max_len"], 4))
        items.extend((pid, g, cr) for g in corpus.classic() + list(ogs)[::9 if tier == "quick" else 3])
    results = fw.pmap(glr_grammar_worker, items)
    rule = RULES["C01"].replace("n_p", str(params["n_prods"])).replace("max_len", str(params["max_len"]))
    out = fw.merge_worker_results(results, rule)
    out["extra"]["grammars"] = len(gs)
    out["extra"]["scope"] = params
    return out
