from vlib import framework as fw
from vlib.monitors import impmon

RULE = ("a four-file grammar family (root, m1, m2, m3) x import graph {{chain, diamond, cycle through the root}} x module "
        "names {{default, 'as' aliases}} x overrides {{none, root overrides a leaf rule, a middle file overrides a leaf "
        "rule used by the overridden module itself, root overrides a middle rule}} (files written to a scratch directory) "
        "x every token string up to length {m}: language and results of GLR on the split grammar vs the flattened "
        "grammar (vlib/spec/flatten.py; also parsed by parglare as a single file) and the symbol table vs the expected "
        "qualified names; non-trivial = sentence")


def check(run, only=None):
    if only in (None, "B"):
        params = {"max_len": 5 if run.tier == "quick" else 6}
        results = fw.pmap(impmon.imp_worker, [("C20", c, params) for c in impmon.cases()], chunksize=1)
        out = fw.merge_worker_results(results, RULE.format(m=params["max_len"]))
        run.add_bounded(out)
    if only in (None, "P"):
        from vlib.props import pcommon
        from vlib.companions import parserfuncs as pf
        import contracts.imports as ci
        pcommon.add_proof(run, "C20", ci.IMPORTS_C20, [pf.run_fqn],
                          "qualified names: the name of an import is the dotted path of module names along the chain of "
                          "first imports, outermost first; a symbol's qualified name is that path followed by its own name "
                          "(PGFileImport.fqn, GrammarSymbol.fqn against a recursively defined specification function)")
