import itertools

from vlib import framework as fw
from vlib.monitors import precmon

RULE = ("every operator table with 1..{k} binary operators over priority levels drawn from {lv} (each used level "
        "left or right), production-level and rule-level ('compact') meta data, two orders of alternatives, x every "
        "expression with up to {m} operators incl. one parenthesised group; LR (no strategies) and GLR vs precedence "
        "climbing; plus the LALR(1) expression grammar decorated with every combination of priorities/associativities "
        "from a fixed set vs the undecorated grammar on every token string up to length {nl}; non-trivial = >= 2 operators")


def check(run, only=None):
    if only in (None, "B"):
        quick = run.tier == "quick"
        kmax = 3 if quick else 4
        level_sets = [(1, 2, 3, 4, 5, 6), (0, 1, 2, 3, 4, 5), (5, 10, 20, 30, 40, 50)]
        params = {"max_ops": 3 if quick else 4, "neutral_len": 5 if quick else 6}
        cases = []
        for levels in level_sets:
            for k in range(1, kmax + 1):
                for table in precmon.op_tables(k, levels):
                    ops = list(table)
                    orders = [tuple(ops), tuple(reversed(ops))] if k > 1 else [tuple(ops)]
                    for style in ("prod", "rule"):
                        for order in orders:
                            cases.append((table, style, order))
        if quick:
            cases = [c for i, c in enumerate(cases) if len(c[0]) <= 2 or i % 3 == 0]
        else:
            # (k = 4 sampled 1 in 40 and the neutral decorations 1 in 29: the unsampled thorough scope ran for more
            # than an hour on 16 cores)
            cases = [c for i, c in enumerate(cases) if len(c[0]) <= 3 or i % 40 == 0]
        results = fw.pmap(precmon.prec_worker, [("C06", c, params) for c in cases])
        out = fw.merge_worker_results(results, RULE.format(k=kmax, lv=level_sets, m=params["max_ops"],
                                                            nl=params["neutral_len"]))
        out["extra"]["operator_tables"] = len(cases)
        run.add_bounded(out)
        metas_pool = ["", "left", "right", "1", "left, 2", "right, 12"]
        combos = list(itertools.product(metas_pool, repeat=6))
        step = 97 if quick else 29
        combos = combos[::step]
        results = fw.pmap(precmon.neutral_worker, [("C06", m, params) for m in combos])
        out2 = fw.merge_worker_results(results, "")
        out2["rule"] = None
        out2["extra"] = {"neutral_decorations": len(combos)}
        run.add_bounded(out2)
    if only in (None, "P"):
        from vlib.props import pcommon
        from vlib.companions import resolve
        import contracts.tables_resolve as tr
        pcommon.add_proof(run, "C06", tr.RESOLVE_C06, [resolve.run],
                          "the conflict-resolution block of create_table, for ONE table cell and ONE reduction: a free cell "
                          "takes the reduction; against a SHIFT/ACCEPT the higher priority wins, equal priority: left => "
                          "reduction, right => shift, none => both unless prefer_shifts / prefer_shifts_over_empty (and not "
                          "nops / nopse) keeps only the shift; among reductions a higher priority replaces, an equal one "
                          "joins, a lower one is dropped; nothing foreign enters the cell; the cell invariant 'all "
                          "reductions of a cell have one priority' is preserved")
