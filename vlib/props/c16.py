import json
import os
import subprocess
import sys

from vlib import framework as fw

RULE = ("table construction (LALR / SLR without strategies, LALR with prefer-shifts; serialised states + the S/R and R/R conflict lists in the order the table presents them) "
        "for every {n}-th grammar of Gamma(3, 2) + corpus + a modular grammar with equal local terminal names in two "
        "modules, and the index order of the trees of ambiguous forests (incl. consume_input=False and lexical "
        "ambiguity), each computed in a fresh interpreter under PYTHONHASHSEED in {seeds}, every table a second time in the same "
        "process from the re-loaded text; every digest must be equal across the seeds and across the two constructions; non-trivial = a distinct (case, seed) digest")


def run_child(seed_tier):
    seed, tier = seed_tier
    env = dict(os.environ, PYTHONHASHSEED=str(seed), PYTHONDONTWRITEBYTECODE="1", PYTHONPATH=(fw.ROOT if fw.REPO == "/repo" else fw.REPO + os.pathsep + fw.ROOT))
    p = subprocess.run([sys.executable, "-m", "vlib.monitors.detchild", tier], capture_output=True, text=True, env=env,
                       cwd=fw.ROOT, timeout=3000)
    if p.returncode != 0:
        raise RuntimeError(p.stderr[-2000:])
    return json.loads(p.stdout)


def check(run, only=None):
    if only in (None, "B"):
        seeds = list(range(8)) if run.tier == "quick" else list(range(32))
        results = fw.pmap(run_child, [(s, run.tier) for s in seeds], chunksize=1)
        outs = []
        res = {"evaluations": 0, "nontrivial": 0, "violations": [], "samples": [], "errors": [],
               "rule": RULE.format(n=6 if run.tier == "quick" else 1, seeds=f"0..{len(seeds) - 1}")}
        for (st, r) in results:
            if st != "ok":
                res["errors"].append(r)
            else:
                outs.append(r)
        if outs:
            base = outs[0]
            res["evaluations"] = sum(len(o) for o in outs)
            res["nontrivial"] = len(base)
            for name in base:
                vals = [o.get(name) for o in outs]
                if any(isinstance(v, str) and v.startswith("in-process-differs") for v in vals):
                    res["violations"].append(fw.Violation("det.same_on_repeated_construction", {"case": name[:300]},
                                                          {"digests_by_seed": vals},
                                                          case={"family": "generic", "module": "vlib.props.c16",
                                                                "function": "replay", "tier": run.tier}))
                elif len(set(vals)) != 1:
                    res["violations"].append(fw.Violation("det.same_across_hash_seeds", {"case": name[:300]},
                                                          {"digests_by_seed": vals},
                                                          case={"family": "generic", "module": "vlib.props.c16",
                                                                "function": "replay", "tier": run.tier}))
            res["samples"] = [{"case": k, "digest": v} for k, v in list(base.items())[:3]]
        run.add_bounded(res)


def replay(case, key):
    outs = [run_child((s, case.get("tier", "quick"))) for s in range(6)]
    vals = [o.get(next((k for k in o if k[:300] == key["case"]), None)) for o in outs]
    if any(isinstance(v, str) and v.startswith("in-process-differs") for v in vals):
        return {"violations": [("det.same_on_repeated_construction", key, {"digests_by_seed": vals})]}
    if len(set(vals)) != 1:
        return {"violations": [("det.same_across_hash_seeds", key, {"digests_by_seed": vals})]}
    return {"violations": []}
