import itertools, signal, sys
from functools import lru_cache
from parglare import Grammar, GLRParser
import parglare

def gram_text(prods):
    # prods: list of (lhs, tuple rhs) ; terminals lowercase
    by = {}
    for l, r in prods:
        by.setdefault(l, []).append(r)
    out = []
    for l, alts in by.items():
        out.append(f"{l}: " + " | ".join(" ".join((f"'{s}'" if s.islower() else s) for s in r) if r else "EMPTY" for r in alts) + ";")
    return "\n".join(out)

def is_cyclic_or_unproductive(prods, nts):
    # productive
    prod = set()
    ch = True
    while ch:
        ch = False
        for l, r in prods:
            if l not in prod and all(s.islower() or s in prod for s in r):
                prod.add(l); ch = True
    if set(nts) - prod: return True
    # reachable
    reach = {prods[0][0]}; ch=True
    while ch:
        ch=False
        for l,r in prods:
            if l in reach:
                for s in r:
                    if not s.islower() and s not in reach: reach.add(s); ch=True
    if set(nts)-reach: return True
    nullable=set(); ch=True
    while ch:
        ch=False
        for l,r in prods:
            if l not in nullable and all(s in nullable for s in r):
                nullable.add(l); ch=True
    # unit graph: A -> B if A: x B y with x,y nullable
    edges={n:set() for n in nts}
    for l,r in prods:
        for i,s in enumerate(r):
            if not s.islower() and all(x in nullable for x in r[:i]+r[i+1:]):
                edges[l].add(s)
    # cycle?
    for n in nts:
        seen=set(); st=list(edges[n])
        while st:
            x=st.pop()
            if x==n: return True
            if x not in seen: seen.add(x); st.extend(edges[x])
    return False

def ref_trees(prods, start, w):
    by = {}
    for i,(l, r) in enumerate(prods):
        by.setdefault(l, []).append((i,r))
    INF=10**6
    ml={l:INF for l,_ in prods}
    ch=True
    while ch:
        ch=False
        for l,r in prods:
            v=sum((1 if s.islower() else ml[s]) for s in r)
            if v<ml[l]: ml[l]=v; ch=True
    def minlen(r): return sum((1 if s.islower() else ml[s]) for s in r)
    @lru_cache(None)
    def sym(s, i, j):
        if s.islower():
            return (("T",s,i,j),) if j==i+1 and w[i]==s else ()
        res=[]
        for pi, r in by[s]:
            for ch in seq(r, i, j):
                res.append(("N", s, pi, i, j, ch))
        return tuple(res)
    @lru_cache(None)
    def seq(r, i, j):
        if not r:
            return ((),) if i==j else ()
        out=[]
        for k in range(i, j+1-minlen(r[1:])):
            for t in sym(r[0], i, k):
                for rest in seq(r[1:], k, j):
                    out.append((t,)+rest)
        return tuple(out)
    return sym(start, 0, len(w))

def tree_of(node):
    # convert parglare tree to ref format (without prod index -> use rhs)
    if node.is_term():
        return ("T", node.symbol.name, node.start_position, node.end_position)
    return ("N", node.symbol.name, node.production.prod_id-1, node.start_position, node.end_position, tuple(tree_of(c) for c in node.children))

def norm(t):
    # drop positions of empty nonterms (positions may differ) -> keep all for now
    return t
