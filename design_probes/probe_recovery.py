import itertools, signal, sys, collections, random
from ref import *
from parglare import Grammar, GLRParser, Parser
import parglare
from parglare.exceptions import SRConflicts, RRConflicts
nts = ["S","A"]; syms = ["a","b","S","A"]
rhss = [()] + [(x,) for x in syms] + [(x,y) for x in syms for y in syms]
allp = [(l, r) for l in nts for r in rhss]
stats = collections.Counter(); examples = collections.defaultdict(list)
random.seed(4)
combos = [c for n in (2,3) for c in itertools.combinations(allp, n)]
random.shuffle(combos)
def note(k, e):
    stats[k]+=1
    if len(examples[k])<6: examples[k].append(e)
class TO(Exception): pass
def h(*a): raise TO()
signal.signal(signal.SIGALRM, h)
N=0
for c in combos[:1500]:
    prods = sorted(c, key=lambda p: (p[0]!="S",))
    if prods[0][0]!="S": continue
    used = {p[0] for p in prods}
    if any((not s.islower()) and s not in used for p in prods for s in p[1]): continue
    n = sorted(used, key=lambda x: x!="S")
    if is_cyclic_or_unproductive(prods, n): continue
    txt = gram_text(prods)
    g = Grammar.from_string(txt)
    ps=[("glr",GLRParser(g, error_recovery=True), GLRParser(g))]
    try: ps.append(("lr",Parser(g, error_recovery=True, build_tree=True), Parser(g, build_tree=True)))
    except (SRConflicts, RRConflicts): pass
    N+=1
    for L in range(1,5):
        for w0 in itertools.product("abx ", repeat=L):
            w="".join(w0)
            for name,p,p0 in ps:
                signal.alarm(3)
                try:
                    r=p.parse(w)
                    errs=p.errors
                    spans=[(e.location.start_position,e.location.end_position) for e in errs]
                    for (s,e) in spans:
                        if not (isinstance(s,int) and isinstance(e,int) and 0<=s<=e<=len(w)): note(name+"_span_oob",(txt,w,spans))
                    for (a,b) in zip(spans,spans[1:]):
                        if not a[1]<=b[0]: note(name+"_span_overlap",(txt,w,spans))
                    # sentence => no error
                    try:
                        r0=p0.parse(w); sent=True
                    except parglare.SyntaxError: sent=False
                    except Exception: sent=None
                    if sent and errs: note(name+"_sentence_with_errors",(txt,w,spans))
                    if sent is False and not errs: note(name+"_nonsentence_no_errors",(txt,w))
                    if name=="lr":
                        # char coverage
                        leaves=[]
                        def walk(nd):
                            if nd.is_term(): leaves.append((nd.start_position,nd.end_position))
                            else:
                                for ch in nd.children: walk(ch)
                        walk(r)
                        cov=[0]*len(w)
                        for (s,e) in leaves+spans:
                            for i in range(s,e): cov[i]+=1
                        for i,chh in enumerate(w):
                            if chh!=" " and cov[i]!=1: note("lr_coverage",(txt,w,leaves,spans)); break
                except parglare.SyntaxError as e:
                    pass
                except TO:
                    note(name+"_timeout",(txt,w))
                except Exception as ex:
                    note(name+"_other_"+type(ex).__name__,(txt,w,str(ex)[:80]))
                finally:
                    signal.alarm(0)
print(N, dict(stats))
for k,v in examples.items():
    print("==",k)
    for e in v: print("   ", e)
