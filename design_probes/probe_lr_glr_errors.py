import itertools, signal, sys, collections, random
from ref import *
from earley import earley_prefix_info
from parglare import Grammar, GLRParser, Parser
import parglare
from parglare.exceptions import SRConflicts, RRConflicts
nts = ["S","A"]; syms = ["a","b","S","A"]
rhss = [()] + [(x,) for x in syms] + [(x,y) for x in syms for y in syms]
allp = [(l, r) for l in nts for r in rhss]
def strip(t):
    return (t[0],t[1]) if t[0]=="T" else (t[0],t[1],t[2],tuple(strip(c) for c in t[5]))
stats = collections.Counter(); examples = collections.defaultdict(list)
random.seed(2)
combos = [c for n in (2,3) for c in itertools.combinations(allp, n)]
random.shuffle(combos)
def note(k, e):
    stats[k]+=1
    if len(examples[k])<5: examples[k].append(e)
N=0
for c in combos[:2500]:
    prods = sorted(c, key=lambda p: (p[0]!="S",))
    if prods[0][0]!="S": continue
    used = {p[0] for p in prods}
    if any((not s.islower()) and s not in used for p in prods for s in p[1]): continue
    n = sorted(used, key=lambda x: x!="S")
    if is_cyclic_or_unproductive(prods, n): continue
    txt = gram_text(prods)
    g = Grammar.from_string(txt)
    for kind in (1,0):
        glr = GLRParser(g, tables=kind)
        lr = None; det=False
        try:
            lr = Parser(g, tables=kind, prefer_shifts=False, prefer_shifts_over_empty=False, build_tree=True)
            det = all(len(a)==1 for s in lr.table.states for a in s.actions.values())
        except (SRConflicts, RRConflicts): pass
        try:
            lrp = Parser(g, tables=kind, build_tree=True)
        except (SRConflicts, RRConflicts): lrp=None
        N+=1
        for L in range(0,5):
            for w0 in itertools.product("ab", repeat=L):
                w="".join(w0)
                if w=="": continue   # known C10 defect
                acc, viable, expected = earley_prefix_info(tuple(prods), "S", w)
                ref = ref_trees(tuple(prods), "S", w)
                assert bool(ref)==acc, (txt,w)
                # GLR error position / expected
                try:
                    f = glr.parse(w)
                    if not acc: note("glr_accept_nonsentence",(txt,kind,w))
                except parglare.SyntaxError as e:
                    if acc: note("glr_reject_sentence",(txt,kind,w))
                    else:
                        if e.location.start_position!=viable: note("glr_errpos",(txt,kind,w,e.location.start_position,viable))
                        exp={s.name for s in e.symbols_expected}
                        if exp-{'STOP'}!=expected-{'STOP'}: note("glr_expected",(txt,kind,w,sorted(exp),sorted(expected)))
                        try: str(e)
                        except Exception as ex: note("glr_str_fail",(txt,kind,w,repr(ex)))
                except Exception as ex:
                    note("glr_other_"+type(ex).__name__,(txt,kind,w))
                for name,p in (("lrdet",lr if det else None),("lrdef",lrp)):
                    if p is None: continue
                    try:
                        t = p.parse(w)
                        if not acc: note(name+"_accept_nonsentence",(txt,kind,w))
                        elif strip(tree_of(t)) not in {strip(r) for r in ref}: note(name+"_bad_tree",(txt,kind,w))
                        if name=="lrdet" and len(ref)!=1: note("det_but_ambiguous",(txt,kind,w,len(ref)))
                    except parglare.SyntaxError as e:
                        if acc and name=="lrdet": note("lrdet_reject_sentence",(txt,kind,w))
                        if not acc and e.location.start_position!=viable: note(name+"_errpos",(txt,kind,w,e.location.start_position,viable))
                    except Exception as ex:
                        note(name+"_other_"+type(ex).__name__,(txt,kind,w,str(ex)[:60]))
print(N, dict(stats))
for k,v in examples.items():
    print("==",k)
    for e in v: print("   ", e)
