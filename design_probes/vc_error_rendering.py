from z3 import *
import time
# --- get_line_col_at_position: lines = text.splitlines(keepends=True)
# model: lines : Seq(String); axioms: every line non-empty; off(k)=sum len; off(n)=len(text); n==0 <=> text==""
text = String('text'); pos = Int('pos')
lines = Const('lines', SeqSort(StringSort()))
n = Length(lines)
off = Function('off', IntSort(), IntSort())
k = Int('k')
ax = [off(0)==0,
      ForAll([k], Implies(And(0<=k,k<n), And(off(k+1)==off(k)+Length(lines[k]), Length(lines[k])>=1))),
      off(n)==Length(text), (n==0)==(Length(text)==0)]
# obligation 1: EOF branch `lines[-1]` safe given 0<=pos<=len(text), pos==len(text)
s=Solver(); s.set(timeout=20000); s.add(ax); s.add(0<=pos, pos<=Length(text), pos==Length(text))
s.push(); s.add(Not(n>=1)); t0=time.time(); r=s.check(); print("EOF subscript safe (expect sat = defect):", r, round(time.time()-t0,2))
if r==sat: m=s.model(); print("   text=",m[text],"pos=",m[pos], "n=", m.eval(n))
s.pop()
# with fix precondition text != "" -> unsat
s.push(); s.add(Length(text)>0); s.add(Not(n>=1)); print("with nonempty text:", s.check()); s.pop()
# obligation 2: loop finds a line when pos < len(text): invariant current_pos == off(i) and pos >= off(i); on exit i==n contradiction
i=Int('i')
s2=Solver(); s2.set(timeout=20000); s2.add(ax); s2.add(0<=pos, pos<Length(text))
# inv at i: 0<=i<=n, off(i) <= pos ; body: if off(i) <= pos < off(i)+len(lines[i]): return ; else continue with i+1 -> need off(i+1)<=pos
s2.push(); s2.add(0<=i, i<n, off(i)<=pos, Not(And(off(i)<=pos, pos<off(i)+Length(lines[i]))), Not(off(i+1)<=pos)); print("inv preserved:", s2.check()); s2.pop()
s2.push(); s2.add(i==n, off(i)<=pos); print("fallthrough unreachable when pos<len:", s2.check()); s2.pop()

# --- pos_to_line_col: rfind axioms
inp=String('inp'); p=Int('p'); r_=Int('r')
NL=StringVal("\n")
j=Int('j')
rf=[Or(r_==-1, And(0<=r_, r_<p, SubString(inp,r_,1)==NL)),
    ForAll([j], Implies(And(r_<j, j<p, 0<=j), SubString(inp,j,1)!=NL))]
col = p - r_ - 1
s3=Solver(); s3.set(timeout=20000); s3.add(0<=p, p<=Length(inp)); s3.add(rf)
goal = And(col>=0, col<=p, ForAll([j], Implies(And(p-col<=j, j<p), SubString(inp,j,1)!=NL)), Or(p-col==0, SubString(inp,p-col-1,1)==NL))
s3.add(Not(goal)); t0=time.time(); print("pos_to_line_col column post:", s3.check(), round(time.time()-t0,2))
