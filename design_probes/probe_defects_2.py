import signal, itertools
from parglare import Grammar, Parser, GLRParser
def t(label, f, timeout=10):
    def h(*a): raise TimeoutError()
    signal.signal(signal.SIGALRM, h); signal.alarm(timeout)
    try:
        r = f()
        print(label, '->', r)
    except BaseException as e:
        print(label, 'RAISED', type(e).__name__, str(e)[:300].replace('\n','|'))
    finally:
        signal.alarm(0)

# C05 nontermination
t("nonterm LALR", lambda: GLRParser(Grammar.from_string("S: 'a' | 'a' A; A: S S 'a' | 'a';")) and 'built', 10)
t("nonterm SLR", lambda: GLRParser(Grammar.from_string("S: 'a' | 'a' A; A: S S 'a' | 'a';"), tables=0) and 'built', 10)

# C03 dups: S: A S | b; A: S | a;
g3 = Grammar.from_string("S: A S | 'b'; A: S | 'a';")
for w in ["b", "ab", "bb", "abb", "bbb", "aab", "bab", "abab"]:
    def c3(w=w):
        f = GLRParser(g3).parse(w)
        trees = [x.to_str() for x in f]
        return len(f), len(set(trees)), f.ambiguities
    t("dups "+w, c3)

# C19
t("dot inline", lambda: Parser(Grammar.from_string("S: ID '.' ID; terminals ID: /\\w+/;")).parse("a.b"))
t("kw c++", lambda: Parser(Grammar.from_string("S: 'c++' ; terminals KEYWORD: /\\S+/;")).parse("ccc"))
