# Feasibility: mixed-radix step VC (nonlinear) and bucket-search VC
from z3 import *
import time
t0=time.time()
# spec function P(i) = prod_{j>=i} w_j
w = Function('w', IntSort(), IntSort())
P = Function('P', IntSort(), IntSort())
n = Int('n'); i=Int('i'); counter=Int('counter'); c0=Int('c0'); acc=Int('acc')
s=Solver(); s.set(timeout=20000)
k=Int('k')
s.add(n>=0)
s.add(ForAll([k], Implies(And(0<=k,k<n), w(k)>=1)))
s.add(P(n)==1)
s.add(ForAll([k], Implies(And(0<=k,k<n), P(k)==w(k)*P(k+1))))
# lemma: P(k)>=1 needs induction; supply as assumed lemma for probe (will be proved as ghost loop)
s.add(ForAll([k], Implies(And(0<=k,k<=n), P(k)>=1)))
# invariant at loop head
s.add(0<=i, i<n, 0<=counter, counter<P(i), acc+counter==c0)
factor=P(i+1)
ci = counter / factor   # z3 int div (floor for positive)
cnt2 = counter % factor
acc2 = acc + ci*factor
goal = And(0<=ci, ci<w(i), 0<=cnt2, cnt2<P(i+1), acc2+cnt2==c0)
s.push(); s.add(Not(goal)); print("mixed radix step:", s.check(), round(time.time()-t0,2)); s.pop()
