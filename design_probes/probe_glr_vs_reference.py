import itertools, signal, sys, collections
from ref import *
from parglare import Grammar, GLRParser
import parglare
nts = ["S","A"]
syms = ["a","b","S","A"]
rhss = [()] + [(x,) for x in syms] + [(x,y) for x in syms for y in syms] 
allp = [(l, r) for l in nts for r in rhss]
class TO(Exception): pass
def h(*a): raise TO()
signal.signal(signal.SIGALRM, h)
stats = collections.Counter()
examples = collections.defaultdict(list)
import random
random.seed(1)
combos = [c for n in (2,3) for c in itertools.combinations(allp, n)]
random.shuffle(combos)
N=0
for c in combos[:6000]:
    prods = sorted(c, key=lambda p: (p[0]!="S",))
    if prods[0][0]!="S": continue
    used = {p[0] for p in prods}
    if any((not s.islower()) and s not in used for p in prods for s in p[1]): continue
    n = sorted(used, key=lambda x: x!="S")
    if is_cyclic_or_unproductive(prods, n): continue
    txt = gram_text(prods)
    signal.alarm(5)
    try:
        g = Grammar.from_string(txt)
        p = GLRParser(g)
    except TO:
        stats["build_timeout"]+=1; examples["build_timeout"].append(txt); continue
    except Exception as e:
        stats["build_"+type(e).__name__]+=1; examples["build_"+type(e).__name__].append(txt); continue
    finally:
        signal.alarm(0)
    N+=1
    for L in range(0,5):
        for w in itertools.product("ab", repeat=L):
            w="".join(w)
            ref = ref_trees(tuple(prods), "S", w)
            signal.alarm(5)
            try:
                f = p.parse(w)
                trees = [tree_of(t) for t in f]
                if len(trees)!=len(set(trees)): 
                    stats["dup"]+=1; examples["dup"].append((txt,w))
                if set(trees)-set(ref):
                    stats["unsound"]+=1; examples["unsound"].append((txt,w))
                if set(ref)-set(trees):
                    stats["missing"]+=1; examples["missing"].append((txt,w))
                if not ref:
                    stats["accept_nonsentence"]+=1; examples["accept_nonsentence"].append((txt,w))
                stats["ok_accept"]+=1
            except parglare.SyntaxError:
                if ref: stats["reject_sentence"]+=1; examples["reject_sentence"].append((txt,w))
                stats["ok_reject"]+=1
            except TO:
                stats["parse_timeout"]+=1; examples["parse_timeout"].append((txt,w))
            except Exception as e:
                k="parse_"+type(e).__name__
                stats[k]+=1; examples[k].append((txt,w, str(e)[:80]))
            finally:
                signal.alarm(0)
print(N, dict(stats))
for k,v in examples.items():
    print("==",k,len(v))
    for e in v[:4]: print("   ", e)
    if k=="parse_IndexError": print("   inputs:", collections.Counter(e[1] for e in v))
