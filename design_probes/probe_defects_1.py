import signal, traceback
from parglare import Grammar, Parser, GLRParser
import parglare
def t(label, f):
    try:
        r = f()
        print(label, '->', r)
    except BaseException as e:
        print(label, 'RAISED', type(e).__name__, str(e)[:200].replace('\n','|'))

# C10: empty input
g = Grammar.from_string("S: 'a';")
t("LR empty input", lambda: Parser(g).parse(""))
t("GLR empty input", lambda: GLRParser(g).parse(""))
t("LR ws-only input", lambda: Parser(g).parse("  "))
t("LR 'a\\n' then junk", lambda: Parser(g).parse("a\nb"))

# C03: index beyond len on unambiguous forest
f = GLRParser(g).parse("a")
t("len", lambda: len(f))
t("forest[1] unamb", lambda: f[1].to_str())
t("forest[7] nonlazy unamb", lambda: f.get_nonlazy_tree(7).to_str())
g2 = Grammar.from_string("E: E '+' E | 'n';")
f2 = GLRParser(g2).parse("n+n+n")
t("len2", lambda: len(f2))
t("forest2[2]", lambda: f2[2].to_str())
t("forest2[-1]", lambda: f2[-1].to_str())

# C03 dup packing
g3 = Grammar.from_string("S: A S | 'b'; A: S | 'a';")
def c3():
    f = GLRParser(g3).parse("b b")
    return len(f), [x.to_str() for x in f]
t("dups", c3)

# C05 FIRST over-approx
from parglare.tables import first, follow
g4 = Grammar.from_string("S: A 'b'; A: 'a' | EMPTY;")
fs = first(g4)
print({str(k): sorted(str(x) for x in v) for k,v in fs.items()})
