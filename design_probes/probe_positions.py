from parglare import Grammar, Parser, GLRParser
g = Grammar.from_string("S: A 'a' B; A: EMPTY | 'b'; B: EMPTY | 'b';")
def dump(n, d=0):
    print("  "*d, n.symbol.name, n.start_position, n.end_position, repr(getattr(n,'layout_content',None)), repr(n.value) if n.is_term() else "")
    for c in (n.children if n.is_nonterm() else []):
        dump(c, d+1)
for txt in ["a", "  a  ", " b a b "]:
    print("LR", repr(txt)); dump(Parser(g, build_tree=True).parse(txt))
    print("GLR", repr(txt)); dump(GLRParser(g).parse(txt).get_first_tree())
# ignore_case
g2 = Grammar.from_string("S: 'for' ID; terminals ID: /\\w+/;", ignore_case=True)
t = Parser(g2, build_tree=True).parse("FOR x")
dump(t)
