import itertools, signal, sys, collections, random
sys.path.insert(0,'/verif/design_probes')
from ref import *
from parglare import Grammar, GLRParser
import parglare
class TO(Exception): pass
def h(*a): raise TO()
signal.signal(signal.SIGALRM, h)
nts=["S","A"]; syms=["a","b","S","A"]
rhss=[()]+[(x,) for x in syms]+[(x,y) for x in syms for y in syms]+[(x,y,z) for x in syms for y in syms for z in syms]
allp=[(l,r) for l in nts for r in rhss]
random.seed(7)
combos=[c for n in (3,4) for c in itertools.combinations(allp,n)]
random.shuffle(combos)
stats=collections.Counter(); ex=collections.defaultdict(list)
N=0
for c in combos[:60000]:
    prods=sorted(c,key=lambda p:(p[0]!="S",))
    if prods[0][0]!="S": continue
    used={p[0] for p in prods}
    if any((not s.islower()) and s not in used for p in prods for s in p[1]): continue
    n=sorted(used,key=lambda x:x!="S")
    if is_cyclic_or_unproductive(prods,n): continue
    txt=gram_text(prods)
    N+=1
    if N>2500: break
    signal.alarm(4)
    try:
        p=GLRParser(Grammar.from_string(txt))
    except TO:
        stats["build_timeout"]+=1; ex["build_timeout"].append(txt); continue
    except Exception as e:
        stats["build_"+type(e).__name__]+=1; continue
    finally: signal.alarm(0)
    stats["built"]+=1
    stats["states"]+=len(p.table.states)
    for L in range(1,5):
        for w0 in itertools.product("ab",repeat=L):
            w="".join(w0)
            ref=ref_trees(tuple(prods),"S",w)
            signal.alarm(5)
            try:
                f=p.parse(w)
                if not ref: stats["accept_nonsentence"]+=1; ex["accept_nonsentence"].append((txt,w))
            except parglare.SyntaxError:
                if ref: stats["reject_sentence"]+=1; ex["reject_sentence"].append((txt,w))
            except TO: stats["parse_timeout"]+=1
            except Exception as e: stats["parse_"+type(e).__name__]+=1
            finally: signal.alarm(0)
print(N, dict(stats))
for k,v in ex.items():
    print("==",k,len(v))
    for e in v[:5]: print("   ",e)
