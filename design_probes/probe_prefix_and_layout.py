import itertools, signal, sys, collections, random
from ref import *
from parglare import Grammar, GLRParser, Parser
import parglare
from parglare.exceptions import SRConflicts, RRConflicts
nts = ["S","A"]; syms = ["a","b","S","A"]
rhss = [()] + [(x,) for x in syms] + [(x,y) for x in syms for y in syms]
allp = [(l, r) for l in nts for r in rhss]
def strip(t):
    return (t[0],t[1],t[2],t[3]) if t[0]=="T" else (t[0],t[1],t[2],tuple(strip(c) for c in t[5]))
def strip2(t):
    return (t[0],t[1]) if t[0]=="T" else (t[0],t[1],t[2],tuple(strip2(c) for c in t[5]))
stats = collections.Counter(); examples = collections.defaultdict(list)
random.seed(3)
combos = [c for n in (2,3) for c in itertools.combinations(allp, n)]
random.shuffle(combos)
def note(k, e):
    stats[k]+=1
    if len(examples[k])<6: examples[k].append(e)
N=0
fillers = [" ", "  ", "\n"]
for c in combos[:2500]:
    prods = sorted(c, key=lambda p: (p[0]!="S",))
    if prods[0][0]!="S": continue
    used = {p[0] for p in prods}
    if any((not s.islower()) and s not in used for p in prods for s in p[1]): continue
    n = sorted(used, key=lambda x: x!="S")
    if is_cyclic_or_unproductive(prods, n): continue
    txt = gram_text(prods)
    g = Grammar.from_string(txt)
    glr = GLRParser(g, consume_input=False)
    glrc = GLRParser(g)
    try: lr = Parser(g, consume_input=False, build_tree=True)
    except (SRConflicts, RRConflicts): lr=None
    N+=1
    for L in range(1,5):
        for w0 in itertools.product("ab", repeat=L):
            w="".join(w0)
            refs=[]
            for k in range(0,len(w)+1):
                refs += [strip(t) for t in ref_trees(tuple(prods), "S", w[:k])]
            try:
                f = glr.parse(w)
                trees=[strip(tree_of(t)) for t in f]
                if not refs: note("c17_glr_accept_none",(txt,w))
                if set(trees)-set(refs): note("c17_glr_extra",(txt,w))
                if set(refs)-set(trees): note("c17_glr_missing",(txt,w,len(refs),len(trees)))
                if len(trees)!=len(set(trees)): note("c17_glr_dup",(txt,w))
            except parglare.SyntaxError:
                if refs: note("c17_glr_reject",(txt,w))
            except Exception as ex: note("c17_glr_other_"+type(ex).__name__,(txt,w,str(ex)[:60]))
            if lr:
                try:
                    t=lr.parse(w)
                    if strip(tree_of(t)) not in refs:
                        # positions None issue: compare without positions
                        note("c17_lr_bad",(txt,w))
                except parglare.SyntaxError:
                    pass
                except Exception as ex: note("c17_lr_other_"+type(ex).__name__,(txt,w,str(ex)[:60]))
            # C14 layout invariance (GLR, consume all)
            def run(x):
                try:
                    f=glrc.parse(x); return ("ok", sorted(str(strip2(tree_of(t))) for t in f))
                except parglare.SyntaxError as e: return ("err",)
                except Exception as ex: return ("exc", type(ex).__name__)
            base=run(w)
            for fl in fillers:
                for pos in range(len(w)+1):
                    w2=w[:pos]+fl+w[pos:]
                    if run(w2)!=base: note("c14_glr_diff",(txt,w,w2,base[0],run(w2)[0]))
print(N, dict(stats))
for k,v in examples.items():
    print("==",k)
    for e in v: print("   ", e)
