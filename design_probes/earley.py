def earley_prefix_info(prods, start, w):
    """prods: tuple of (lhs, rhs tuple); terminals lowercase single chars.
    Returns (accepted, viable_len, expected_at_viable_len)
    viable_len = length of longest prefix of w that is a viable prefix (grammar must be reduced/productive)."""
    by = {}
    for l, r in prods: by.setdefault(l, []).append(r)
    nullable=set(); ch=True
    while ch:
        ch=False
        for l,r in prods:
            if l not in nullable and all(s in nullable for s in r): nullable.add(l); ch=True
    n=len(w)
    chart=[set() for _ in range(n+1)]
    def add(i, item, agenda):
        if item not in chart[i]: chart[i].add(item); agenda.append(item)
    agenda=[]
    for r in by[start]: add(0, (start, r, 0, 0), agenda)
    viable=0; expected=set(); accepted=False
    for i in range(n+1):
        if i>0:
            agenda=list(chart[i])
        # closure
        while agenda:
            (l, r, d, o) = agenda.pop()
            if d < len(r):
                s = r[d]
                if not s.islower():
                    for rr in by[s]: add(i, (s, rr, 0, i), agenda)
                    if s in nullable: add(i, (l, r, d+1, o), agenda)
            else:
                for (l2, r2, d2, o2) in list(chart[o]):
                    if d2 < len(r2) and r2[d2]==l: add(i, (l2, r2, d2+1, o2), agenda)
        if not chart[i]: break
        viable=i
        expected={r[d] for (l,r,d,o) in chart[i] if d<len(r) and r[d].islower()}
        fin = any(l==start and d==len(r) and o==0 for (l,r,d,o) in chart[i])
        if fin: expected=expected|{"STOP"}
        if i==n:
            accepted = fin
            break
        for (l,r,d,o) in chart[i]:
            if d<len(r) and r[d]==w[i]:
                chart[i+1].add((l,r,d+1,o))
    return accepted, viable, expected
