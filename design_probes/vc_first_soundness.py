from z3 import *
import time
Sym = DeclareSort('Sym'); Prod = DeclareSort('Prod')
E = Const('EMPTY', Sym)
lhs = Function('lhs', Prod, Sym); rlen = Function('rlen', Prod, IntSort()); rhs = Function('rhs', Prod, IntSort(), Sym)
TF = Function('TF', Sym, Sym, BoolSort())
FS = Function('FS', Sym, Sym, BoolSort())
FS2 = Function('FS2', Sym, Sym, BoolSort())
isterm = Function('isterm', Sym, BoolSort())
p=Const('p',Prod); q=Const('q',Prod); t=Const('t',Sym); x=Const('x',Sym); k=Int('k'); i=Int('i'); idx=Int('idx')
def base(s):
    s.add(ForAll([q], rlen(q)>=0))
    # TF closed under rules
    s.add(ForAll([x], Implies(isterm(x), TF(x,x))))
    s.add(ForAll([q,i,t], Implies(And(0<=i, i<rlen(q), ForAll([k], Implies(And(0<=k,k<i), TF(rhs(q,k),E))), TF(rhs(q,i),t), t!=E), TF(lhs(q),t))))
    s.add(ForAll([q], Implies(ForAll([k], Implies(And(0<=k,k<rlen(q)), TF(rhs(q,k),E))), TF(lhs(q),E))))
    # invariant FS subset TF
    s.add(ForAll([x,t], Implies(FS(x,t), TF(x,t))))
    # inner invariant
    s.add(0<=idx, idx<rlen(p))
    s.add(ForAll([k], Implies(And(0<=k,k<idx), FS(rhs(p,k),E))))
for name, buggy in (("buggy",True),("fixed",False)):
    s=Solver(); s.set(timeout=30000); base(s)
    if buggy:
        s.add(ForAll([x,t], FS2(x,t) == If(x==lhs(p), Or(FS(x,t), FS(rhs(p,idx),t)), FS(x,t))))
    else:
        s.add(ForAll([x,t], FS2(x,t) == If(x==lhs(p), Or(FS(x,t), And(FS(rhs(p,idx),t), t!=E)), FS(x,t))))
    t0=time.time()
    s.add(Not(ForAll([x,t], Implies(FS2(x,t), TF(x,t)))))
    r=s.check(); print(name, r, round(time.time()-t0,2))
    if r==sat:
        m=s.model(); print("  model size", len(m.decls()))
