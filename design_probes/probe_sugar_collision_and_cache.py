from parglare import Grammar, Parser, GLRParser
import parglare
def t(label, f):
    try: print(label, '->', f())
    except BaseException as e: print(label, 'RAISED', type(e).__name__, str(e)[:200].replace('\n','|'))
# helper-name collision
g = "S: A+ 'x' A_1; A: 'a'; A_1: 'b';"
t("A+ with user A_1", lambda: Parser(Grammar.from_string(g)).parse("a a x b"))
t("A+ with user A_1 (b b)", lambda: Parser(Grammar.from_string(g)).parse("b x b"))
# C12 property-text claim
import tempfile, os, shutil
d = tempfile.mkdtemp()
p = os.path.join(d, "g.pg"); open(p,"w").write("E: E '+' E | E '*' E | 'n';")
g1 = Grammar.from_file(p)
t("LR first", lambda: Parser(g1).parse("n+n*n+n"))
t("GLR after LR", lambda: len(GLRParser(Grammar.from_file(p)).parse("n+n*n+n")))
os.remove(os.path.join(d,"g.pgc"))
t("GLR fresh", lambda: len(GLRParser(Grammar.from_file(p)).parse("n+n*n+n")))
t("LR after GLR", lambda: Parser(Grammar.from_file(p)).parse("n+n*n+n"))
shutil.rmtree(d)
